/-
The encoders of `encode.rs` on top of the bit-buffer law: for every payload of the mode's alphabet,
`encode_numeric` / `encode_alphanumeric` / `encode_byte` append exactly the ISO 7.4 segment bits
(mode indicator, character count, payload groups), without traps.
-/
import FastQr.Props.C05Tables
import FastQr.Proofs.CompactSound
import FastQr.Props.C09
import FastQr.Model.Encode
import FastQr.Spec.Bitstream
import FastQr.Props.C05
import FastQr.Props.C02

namespace FastQr.Proofs.EncodeSound
open FastQr Model Model.Compact Spec Proofs.CompactSound

def bitsOf (c : Compact) : List Bool := (List.range c.len).map (bit c)

/-- `c'` is `c` with the bit list `l` appended -/
def AppL (c c' : Compact) (l : List Bool) : Prop := Appends c c' l.length (fun j => l.getD j false)

theorem AppL.refl (c : Compact) (h : Inv c) : AppL c c [] := Appends.refl c h _

theorem AppL.trans {c c1 c2 : Compact} {l1 l2 : List Bool} (h1 : AppL c c1 l1) (h2 : AppL c1 c2 l2) :
    AppL c c2 (l1 ++ l2) := by
  have := Appends.trans h1 h2
  simp only [AppL, List.length_append]
  apply this.congr
  intro j hj
  by_cases h : j < l1.length
  · simp only [h, if_true]
    rw [List.getD_eq_getElem?_getD, List.getD_eq_getElem?_getD, List.getElem?_append_left h]
  · simp only [h, if_false]
    rw [List.getD_eq_getElem?_getD, List.getD_eq_getElem?_getD, List.getElem?_append_right (by omega)]

theorem AppL.bits {c c' : Compact} {l : List Bool} (h : AppL c c' l) : bitsOf c' = bitsOf c ++ l := by
  obtain ⟨hl, _, _, hb⟩ := h
  apply List.ext_getElem
  · simp [bitsOf, hl]
  · intro i h1 h2
    simp only [bitsOf, List.getElem_map, List.getElem_range]
    rw [hb i]
    by_cases hi : i < c.len
    · rw [if_pos hi, List.getElem_append_left (by simpa [bitsOf] using hi)]
      simp [bitsOf]
    · have hi2 : i < c.len + l.length := by simpa [bitsOf, hl] using h1
      rw [if_neg hi, if_pos hi2, List.getElem_append_right (by simpa [bitsOf] using Nat.le_of_not_lt hi)]
      simp only [bitsOf, List.length_map, List.length_range]
      rw [List.getD_eq_getElem?_getD, List.getElem?_eq_getElem (by omega)]
      rfl

theorem testBit_shift (b i : Nat) : b.testBit i = ((b >>> i) % 2 == 1) := by
  rw [Nat.testBit_eq_decide_div_mod_eq, Nat.shiftRight_eq_div_pow]
  by_cases h : b / 2 ^ i % 2 = 1 <;> simp [h]

theorem toBits_getD (w b j : Nat) (hj : j < w) : (Bitstream.toBits w b).getD j false = b.testBit (w - 1 - j) := by
  rw [List.getD_eq_getElem?_getD, List.getElem?_eq_getElem (by simpa [Bitstream.toBits] using hj)]
  simp [Bitstream.toBits, testBit_shift]

theorem pushBits_appL (c : Compact) (b w : Nat) (hinv : Inv c) (hw : w ≤ 64) (hroom : (c.len + w) / 8 + 1 < c.data.size) :
    (pushBits c b w).traps = [] ∧ AppL c (pushBits c b w).val (Bitstream.toBits w b) := by
  obtain ⟨ht, ha⟩ := pushBits_spec c b w hinv hw hroom
  refine ⟨ht, ?_⟩
  have hl : (Bitstream.toBits w b).length = w := by simp [Bitstream.toBits]
  simp only [AppL, hl]
  apply ha.congr
  intro j hj
  exact (toBits_getD w b j hj).symm

theorem pushU8_appL (c : Compact) (b : Nat) (hb : b < 256) (hinv : Inv c) (hroom : (c.len + 8) / 8 < c.data.size) :
    (pushU8 c b).traps = [] ∧ AppL c (pushU8 c b).val (Bitstream.toBits 8 b) := by
  obtain ⟨pt, pl, ps, pi, pb⟩ := pushU8_spec c b hb hinv hroom
  refine ⟨pt, ?_⟩
  have hl : (Bitstream.toBits 8 b).length = 8 := by simp [Bitstream.toBits]
  have h0 : Appends c (pushU8 c b).val 8 (fun j => b.testBit (7 - j)) := ⟨pl, ps, pi, pb⟩
  simp only [AppL, hl]
  apply h0.congr
  intro j hj
  rw [toBits_getD 8 b j hj]

/-! ### numeric mode -/

def Digits (inp : List Nat) : Prop := ∀ x ∈ inp, x < 256 ∧ Spec.isDigit x = true

theorem asciiToDigit_ok {x : Nat} (hx : x < 256) (hd : Spec.isDigit x = true) : asciiToDigit x = ⟨x - 48, []⟩ := by
  have := (Props.C09.C09_tables hx).1
  simp [asciiToDigit, this, hd]

def triplesBits : List Nat → List Bool
  | a :: b :: d :: rest => Bitstream.toBits 10 ((a - 48) * 100 + (b - 48) * 10 + (d - 48)) ++ triplesBits rest
  | _ => []

/-- what is left after the complete triples -/
def tailOf : List Nat → List Nat
  | _ :: _ :: _ :: rest => tailOf rest
  | l => l

theorem triplesBits_length : ∀ (inp : List Nat), (triplesBits inp).length = 10 * (inp.length / 3)
  | [] => rfl
  | [_] => by simp [triplesBits]
  | [_, _] => by simp [triplesBits]
  | _ :: _ :: _ :: rest => by
    simp only [triplesBits, List.length_append, List.length_cons, triplesBits_length rest]
    simp [Bitstream.toBits]; omega

theorem digitsBits_split : ∀ (inp : List Nat), Bitstream.digitsBits inp = triplesBits inp ++ Bitstream.digitsBits (tailOf inp)
  | [] => rfl
  | [_] => rfl
  | [_, _] => rfl
  | a :: b :: d :: rest => by
    simp only [Bitstream.digitsBits, triplesBits, tailOf, List.append_assoc, digitsBits_split rest]

theorem tailOf_eq : ∀ (inp : List Nat), tailOf inp = numericTail inp ∧ (tailOf inp).length = inp.length % 3
  | [] => ⟨rfl, rfl⟩
  | [_] => ⟨rfl, rfl⟩
  | [_, _] => ⟨rfl, rfl⟩
  | a :: b :: d :: rest => by
    obtain ⟨h1, h2⟩ := tailOf_eq rest
    constructor
    · simp only [tailOf, h1, numericTail, List.length_cons]
      have e : (rest.length + 1 + 1 + 1) % 3 = rest.length % 3 := by omega
      have e2 : rest.length + 1 + 1 + 1 - rest.length % 3 = (rest.length - rest.length % 3) + 3 := by
        have := Nat.mod_le rest.length 3; omega
      rw [e, e2]
      rfl
    · simp only [tailOf, h2, List.length_cons]; omega

theorem triples_spec (B : Nat) : ∀ (inp : List Nat), Digits inp → ∀ c : Compact, Inv c →
    c.len + 10 * (inp.length / 3) ≤ B → B / 8 + 1 < c.data.size →
    (numericTriples c inp).traps = [] ∧ AppL c (numericTriples c inp).val (triplesBits inp)
  | [], _, c, hinv, _, _ => ⟨rfl, AppL.refl c hinv⟩
  | [_], _, c, hinv, _, _ => ⟨rfl, AppL.refl c hinv⟩
  | [_, _], _, c, hinv, _, _ => ⟨rfl, AppL.refl c hinv⟩
  | a :: b :: d :: rest, hd, c, hinv, hlen, hB => by
    have ha := hd a (by simp)
    have hb := hd b (by simp)
    have hdd := hd d (by simp)
    simp only [List.length_cons] at hlen
    have hq : (rest.length + 1 + 1 + 1) / 3 = rest.length / 3 + 1 := by omega
    rw [hq] at hlen
    obtain ⟨pt, pa⟩ := pushBits_appL c ((a - 48) * 100 + (b - 48) * 10 + (d - 48)) 10 hinv (by omega) (by omega)
    have hl1 := pa.1
    have hs1 := pa.2.1
    have hl1' : (pushBits c ((a - 48) * 100 + (b - 48) * 10 + (d - 48)) 10).val.len = c.len + 10 := by
      rw [hl1]; simp [Bitstream.toBits]
    obtain ⟨rt, ra⟩ := triples_spec B rest (fun x hx => hd x (by simp [hx])) _ pa.2.2.1
      (by rw [hl1']; omega) (by rw [hs1]; exact hB)
    simp only [numericTriples, asciiToDigit_ok ha.1 ha.2, asciiToDigit_ok hb.1 hb.2, asciiToDigit_ok hdd.1 hdd.2,
      bind, Chk.bind', List.nil_append, triplesBits]
    exact ⟨by simp [pt, rt], pa.trans ra⟩

theorem appL_len {c c' : Compact} {l : List Bool} (h : AppL c c' l) : c'.len = c.len + l.length := h.1
theorem appL_size {c c' : Compact} {l : List Bool} (h : AppL c c' l) : c'.data.size = c.data.size := h.2.1
theorem appL_inv {c c' : Compact} {l : List Bool} (h : AppL c c' l) : Inv c' := h.2.2.1
theorem toBits_length (w b : Nat) : (Bitstream.toBits w b).length = w := by simp [Bitstream.toBits]

theorem encodeNumeric_spec (c : Compact) (inp : List Nat) (cci B : Nat) (hd : Digits inp) (hinv : Inv c)
    (hcci : cci ≤ 16) (hlen : c.len + 4 + cci + payloadBits .numeric inp.length ≤ B) (hB : B / 8 + 1 < c.data.size) :
    (encodeNumeric c inp cci).traps = [] ∧
    AppL c (encodeNumeric c inp cci).val
      (Bitstream.toBits 4 1 ++ Bitstream.toBits cci inp.length ++ Bitstream.digitsBits inp) := by
  simp only [payloadBits] at hlen
  obtain ⟨t1, a1⟩ := pushBits_appL c 1 4 hinv (by omega) (by omega)
  have l1 := appL_len a1; rw [toBits_length] at l1
  obtain ⟨t2, a2⟩ := pushBits_appL _ inp.length cci (appL_inv a1) (by omega) (by rw [l1, appL_size a1]; omega)
  have l2 := appL_len a2; rw [toBits_length, l1] at l2
  have s2 : (pushBits (pushBits c 1 4).val inp.length cci).val.data.size = c.data.size := by
    rw [appL_size a2, appL_size a1]
  obtain ⟨t3, a3⟩ := triples_spec B inp hd _ (appL_inv a2) (by rw [l2]; omega) (by rw [s2]; exact hB)
  have l3 := appL_len a3; rw [triplesBits_length, l2] at l3
  have s3 := (appL_size a3).trans s2
  obtain ⟨htail, htl⟩ := tailOf_eq inp
  have hsplit := digitsBits_split inp
  have a123 := (a1.trans a2).trans a3
  simp only [encodeNumeric, bind, Chk.bind', ← htail]
  -- case analysis on the (at most two) trailing digits
  match hto : tailOf inp, htl with
  | [], _ =>
    rw [hto] at hsplit
    simp only [List.isEmpty_nil, if_true, pure, Chk.pure', List.append_nil]
    refine ⟨by simp [t1, t2, t3], ?_⟩
    rw [hsplit]; simpa [Bitstream.digitsBits] using a123
  | [x], hl1 =>
    rw [hto] at hsplit
    have hx := hd x (by
      have : x ∈ tailOf inp := by rw [hto]; simp
      rw [htail] at this; exact List.mem_of_mem_drop this)
    have hmod : inp.length % 3 = 1 := by simpa using hl1.symm
    obtain ⟨t4, a4⟩ := pushBits_appL _ (x - 48) 4 (appL_inv a3) (by omega) (by rw [l3, s3]; simp [hmod] at hlen; omega)
    simp only [List.isEmpty_cons, Bool.false_eq_true, if_false, List.foldlM_cons, List.foldlM_nil, bind, Chk.bind',
      asciiToDigit_ok hx.1 hx.2, pure, Chk.pure', Nat.zero_mul, Nat.zero_add, hmod, List.append_nil, List.nil_append]
    refine ⟨by simp [t1, t2, t3, t4], ?_⟩
    rw [hsplit]
    have := a123.trans a4
    simpa [Bitstream.digitsBits, List.append_assoc] using this
  | [x, y], hl2 =>
    rw [hto] at hsplit
    have hmem : ∀ z ∈ [x, y], z ∈ inp := by
      intro z hz
      have : z ∈ tailOf inp := by rw [hto]; exact hz
      rw [htail] at this; exact List.mem_of_mem_drop this
    have hx := hd x (hmem x (by simp))
    have hy := hd y (hmem y (by simp))
    have hmod : inp.length % 3 = 2 := by simpa using hl2.symm
    obtain ⟨t4, a4⟩ := pushBits_appL _ ((x - 48) * 10 + (y - 48)) 7 (appL_inv a3) (by omega)
      (by rw [l3, s3]; simp [hmod] at hlen; omega)
    simp only [List.isEmpty_cons, Bool.false_eq_true, if_false, List.foldlM_cons, List.foldlM_nil, bind, Chk.bind',
      asciiToDigit_ok hx.1 hx.2, asciiToDigit_ok hy.1 hy.2, pure, Chk.pure', Nat.zero_mul, Nat.zero_add, hmod,
      List.append_nil, List.nil_append]
    refine ⟨by simp [t1, t2, t3, t4], ?_⟩
    rw [hsplit]
    have := a123.trans a4
    simpa [Bitstream.digitsBits, List.append_assoc] using this
  | _ :: _ :: _ :: _, hl3 =>
    exfalso; simp only [List.length_cons] at hl3; omega

/-! ### alphanumeric mode -/

def Alnums (inp : List Nat) : Prop := ∀ x ∈ inp, x < 256 ∧ Spec.isAlnum x = true

theorem asciiToAlnum_ok {x : Nat} (hx : x < 256) (ha : Spec.isAlnum x = true) :
    asciiToAlnum x = ⟨(Spec.alnumValue x).getD 0, []⟩ ∧ (Spec.alnumValue x).getD 0 < 45 := by
  obtain ⟨h1, h2⟩ := Props.C09.C09_value_defined hx ha
  have hne : (T.alnumValue x == 255) = false := by
    have : T.alnumValue x ≠ 255 := by omega
    simpa using this
  simp [asciiToAlnum, hne, h2, h1]

def pairsBits : List Nat → List Bool
  | a :: b :: rest => Bitstream.toBits 11 ((Spec.alnumValue a).getD 0 * 45 + (Spec.alnumValue b).getD 0) ++ pairsBits rest
  | _ => []

def tail2 : List Nat → List Nat
  | _ :: _ :: rest => tail2 rest
  | l => l

theorem pairsBits_length : ∀ (inp : List Nat), (pairsBits inp).length = 11 * (inp.length / 2)
  | [] => rfl
  | [_] => by simp [pairsBits]
  | _ :: _ :: rest => by
    simp only [pairsBits, List.length_append, List.length_cons, pairsBits_length rest, toBits_length]; omega

theorem alnumBits_split : ∀ (inp : List Nat), Bitstream.alnumBits inp = pairsBits inp ++ Bitstream.alnumBits (tail2 inp)
  | [] => rfl
  | [_] => rfl
  | a :: b :: rest => by
    simp only [Bitstream.alnumBits, pairsBits, tail2, List.append_assoc, alnumBits_split rest]

theorem tail2_spec : ∀ (inp : List Nat),
    (inp.length % 2 = 0 → tail2 inp = []) ∧ (inp.length % 2 = 1 → ∃ l, inp.getLast? = some l ∧ tail2 inp = [l])
  | [] => ⟨fun _ => rfl, fun h => by simp at h⟩
  | [x] => ⟨fun h => by simp at h, fun _ => ⟨x, rfl, rfl⟩⟩
  | a :: b :: rest => by
    obtain ⟨h1, h2⟩ := tail2_spec rest
    simp only [List.length_cons, tail2]
    constructor
    · intro h; exact h1 (by omega)
    · intro h
      obtain ⟨l, hl, ht⟩ := h2 (by omega)
      refine ⟨l, ?_, ht⟩
      cases rest with
      | nil => simp at hl
      | cons r rs => simpa [List.getLast?_cons_cons] using hl

theorem pairs_spec (B : Nat) : ∀ (inp : List Nat), Alnums inp → ∀ c : Compact, Inv c →
    c.len + 11 * (inp.length / 2) ≤ B → B / 8 + 1 < c.data.size →
    (alnumPairs c inp).traps = [] ∧ AppL c (alnumPairs c inp).val (pairsBits inp)
  | [], _, c, hinv, _, _ => ⟨rfl, AppL.refl c hinv⟩
  | [_], _, c, hinv, _, _ => ⟨rfl, AppL.refl c hinv⟩
  | a :: b :: rest, hd, c, hinv, hlen, hB => by
    have ha := hd a (by simp)
    have hb := hd b (by simp)
    simp only [List.length_cons] at hlen
    have hq : (rest.length + 1 + 1) / 2 = rest.length / 2 + 1 := by omega
    rw [hq] at hlen
    obtain ⟨pt, pa⟩ := pushBits_appL c ((Spec.alnumValue a).getD 0 * 45 + (Spec.alnumValue b).getD 0) 11 hinv
      (by omega) (by omega)
    have hl1 := appL_len pa; rw [toBits_length] at hl1
    obtain ⟨rt, ra⟩ := pairs_spec B rest (fun x hx => hd x (by simp [hx])) _ (appL_inv pa)
      (by rw [hl1]; omega) (by rw [appL_size pa]; exact hB)
    simp only [alnumPairs, (asciiToAlnum_ok ha.1 ha.2).1, (asciiToAlnum_ok hb.1 hb.2).1, bind, Chk.bind',
      List.nil_append, pairsBits]
    exact ⟨by simp [pt, rt], pa.trans ra⟩

theorem encodeAlnum_spec (c : Compact) (inp : List Nat) (cci B : Nat) (hd : Alnums inp) (hinv : Inv c)
    (hcci : cci ≤ 16) (hlen : c.len + 4 + cci + payloadBits .alnum inp.length ≤ B) (hB : B / 8 + 1 < c.data.size) :
    (encodeAlnum c inp cci).traps = [] ∧
    AppL c (encodeAlnum c inp cci).val
      (Bitstream.toBits 4 2 ++ Bitstream.toBits cci inp.length ++ Bitstream.alnumBits inp) := by
  simp only [payloadBits] at hlen
  obtain ⟨t1, a1⟩ := pushBits_appL c 2 4 hinv (by omega) (by omega)
  have l1 := appL_len a1; rw [toBits_length] at l1
  obtain ⟨t2, a2⟩ := pushBits_appL _ inp.length cci (appL_inv a1) (by omega) (by rw [l1, appL_size a1]; omega)
  have l2 := appL_len a2; rw [toBits_length, l1] at l2
  have s2 : (pushBits (pushBits c 2 4).val inp.length cci).val.data.size = c.data.size := by
    rw [appL_size a2, appL_size a1]
  obtain ⟨t3, a3⟩ := pairs_spec B inp hd _ (appL_inv a2) (by rw [l2]; omega) (by rw [s2]; exact hB)
  have l3 := appL_len a3; rw [pairsBits_length, l2] at l3
  have s3 := (appL_size a3).trans s2
  have hsplit := alnumBits_split inp
  obtain ⟨he, ho⟩ := tail2_spec inp
  have a123 := (a1.trans a2).trans a3
  simp only [encodeAlnum, bind, Chk.bind']
  by_cases hodd : inp.length % 2 = 0
  · have hne : (inp.length % 2 != 0) = false := by simp [hodd]
    rw [he hodd] at hsplit
    simp only [hne, Bool.false_eq_true, if_false, pure, Chk.pure', List.append_nil]
    refine ⟨by simp [t1, t2, t3], ?_⟩
    rw [hsplit]; simpa [Bitstream.alnumBits] using a123
  · have hne : (inp.length % 2 != 0) = true := by simpa using hodd
    obtain ⟨l, hl, ht⟩ := ho (by omega)
    rw [ht] at hsplit
    have hlm : l ∈ inp := List.mem_of_getLast? hl
    have hlx := hd l hlm
    obtain ⟨t4, a4⟩ := pushBits_appL _ ((Spec.alnumValue l).getD 0) 6 (appL_inv a3) (by omega)
      (by rw [l3, s3]; have : inp.length % 2 = 1 := by omega
          omega)
    simp only [hne, if_true, hl, (asciiToAlnum_ok hlx.1 hlx.2).1, bind, Chk.bind', List.nil_append]
    refine ⟨by simp [t1, t2, t3, t4], ?_⟩
    rw [hsplit]
    have := a123.trans a4
    simpa [Bitstream.alnumBits, List.append_assoc] using this

/-! ### byte mode -/

def BytesIn (inp : List Nat) : Prop := ∀ x ∈ inp, x < 256

theorem u8s_spec (B : Nat) : ∀ (inp : List Nat), BytesIn inp → ∀ c : Compact, Inv c →
    c.len + 8 * inp.length ≤ B → B / 8 + 1 < c.data.size →
    (inp.foldlM pushU8 c).traps = [] ∧ AppL c (inp.foldlM pushU8 c).val (inp.flatMap (Bitstream.toBits 8))
  | [], _, c, hinv, _, _ => ⟨rfl, AppL.refl c hinv⟩
  | x :: rest, hd, c, hinv, hlen, hB => by
    simp only [List.length_cons] at hlen
    obtain ⟨pt, pa⟩ := pushU8_appL c x (hd x (by simp)) hinv (by omega)
    have hl1 := appL_len pa; rw [toBits_length] at hl1
    obtain ⟨rt, ra⟩ := u8s_spec B rest (fun y hy => hd y (by simp [hy])) _ (appL_inv pa)
      (by rw [hl1]; omega) (by rw [appL_size pa]; exact hB)
    simp only [List.foldlM_cons, bind, Chk.bind', List.flatMap_cons]
    exact ⟨by simp [pt, rt], pa.trans ra⟩

theorem encodeByte_spec (c : Compact) (inp : List Nat) (cci B : Nat) (hd : BytesIn inp) (hinv : Inv c)
    (hcci : cci ≤ 16) (hlen : c.len + 4 + cci + payloadBits .byte inp.length ≤ B) (hB : B / 8 + 1 < c.data.size) :
    (encodeByte c inp cci).traps = [] ∧
    AppL c (encodeByte c inp cci).val
      (Bitstream.toBits 4 4 ++ Bitstream.toBits cci inp.length ++ inp.flatMap (Bitstream.toBits 8)) := by
  simp only [payloadBits] at hlen
  obtain ⟨t1, a1⟩ := pushBits_appL c 4 4 hinv (by omega) (by omega)
  have l1 := appL_len a1; rw [toBits_length] at l1
  obtain ⟨t2, a2⟩ := pushBits_appL _ inp.length cci (appL_inv a1) (by omega) (by rw [l1, appL_size a1]; omega)
  have l2 := appL_len a2; rw [toBits_length, l1] at l2
  have s2 : (pushBits (pushBits c 4 4).val inp.length cci).val.data.size = c.data.size := by
    rw [appL_size a2, appL_size a1]
  obtain ⟨t3, a3⟩ := u8s_spec B inp hd _ (appL_inv a2) (by rw [l2]; omega) (by rw [s2]; exact hB)
  have hnoop : increaseLen (pushBits (pushBits c 4 4).val inp.length cci).val
      ((pushBits (pushBits c 4 4).val inp.length cci).val.len + 8 * inp.length) =
      (pushBits (pushBits c 4 4).val inp.length cci).val :=
    increaseLen_noop _ _ (by rw [l2, s2]; omega)
  simp only [encodeByte, bind, Chk.bind', pushU8Slice, hnoop]
  exact ⟨by simp [t1, t2, t3], (a1.trans a2).trans a3⟩

/-! ### the whole `encode::encode` -/

theorem toBits_zero (w : Nat) : Bitstream.toBits w 0 = List.replicate w false := by
  apply List.ext_getElem
  · simp [Bitstream.toBits]
  · intro i h1 h2
    simp [Bitstream.toBits]

theorem fromVersion_inv (v : Nat) : Inv (Compact.fromVersion v) := by
  constructor
  · intro k
    simp only [Compact.fromVersion, Array.getD_eq_getD_getElem?, Array.getElem?_replicate]
    split <;> simp
  · intro i _
    simp only [bit, Compact.fromVersion, Array.getD_eq_getD_getElem?, Array.getElem?_replicate]
    split <;> simp

/-- the pad bytes `fill` pushes -/
def padByte (i : Nat) : Nat := if i % 2 == 0 then T.padBytes.1 else T.padBytes.2

theorem padByte_lt (i : Nat) : padByte i < 256 := by
  have := Props.C06.C06_pad_bytes
  simp only [padByte, this]
  split <;> decide

theorem fill_spec (c : Compact) (hinv : Inv c) (hal : c.len % 8 = 0) (B : Nat)
    (hlen : c.len + 8 * ((c.data.size - c.len + 7) / 8) ≤ B) (hB : B / 8 + 1 < c.data.size) :
    (fill c).traps = [] ∧
    AppL c (fill c).val (((List.range ((c.data.size - c.len + 7) / 8)).map padByte).flatMap (Bitstream.toBits 8)) := by
  have hg : (c.len % 8 == 0) = true := by simp [hal]
  have h := u8s_spec B ((List.range ((c.data.size - c.len + 7) / 8)).map padByte)
    (by intro x hx; simp only [List.mem_map] at hx; obtain ⟨i, _, rfl⟩ := hx; exact padByte_lt i)
    c hinv (by simpa using hlen) hB
  simp only [List.foldlM_map] at h
  simp only [fill, hg, Chk.guard, if_true, bind, Chk.bind', List.nil_append]
  exact h

theorem digitsBits_length : ∀ (inp : List Nat), (Bitstream.digitsBits inp).length = payloadBits .numeric inp.length
  | [] => rfl
  | [_] => by simp [Bitstream.digitsBits, payloadBits, toBits_length]
  | [_, _] => by simp [Bitstream.digitsBits, payloadBits, toBits_length]
  | _ :: _ :: _ :: rest => by
    have ih := digitsBits_length rest
    simp only [payloadBits] at ih ⊢
    simp only [Bitstream.digitsBits, List.length_append, toBits_length, ih, List.length_cons]
    have e1 : (rest.length + 1 + 1 + 1) / 3 = rest.length / 3 + 1 := by omega
    have e2 : (rest.length + 1 + 1 + 1) % 3 = rest.length % 3 := by omega
    simp only [e1, e2]; omega

theorem alnumBits_length : ∀ (inp : List Nat), (Bitstream.alnumBits inp).length = payloadBits .alnum inp.length
  | [] => rfl
  | [_] => by simp [Bitstream.alnumBits, payloadBits, toBits_length]
  | _ :: _ :: rest => by
    have ih := alnumBits_length rest
    simp only [payloadBits] at ih ⊢
    simp only [Bitstream.alnumBits, List.length_append, toBits_length, ih, List.length_cons]
    omega

theorem bytesBits_length (inp : List Nat) : (inp.flatMap (Bitstream.toBits 8)).length = 8 * inp.length := by
  induction inp with
  | nil => rfl
  | cons x xs ih => simp only [List.flatMap_cons, List.length_append, toBits_length, ih, List.length_cons]; omega

theorem segment_length (m : Mode) (v : Nat) (inp : List Nat) :
    (Bitstream.segment m v inp).length = 4 + Spec.cciBits m v + payloadBits m inp.length := by
  simp only [Bitstream.segment, List.length_append, toBits_length]
  cases m <;> simp only [Bitstream.payload, digitsBits_length, alnumBits_length, bytesBits_length, payloadBits]

/-- terminator length, bit padding length and number of pad codewords `fill` pushes -/
def termLen (l : ECL) (v seg : Nat) : Nat := min (T.dataBits l v - seg) 4
def padLen (l : ECL) (v seg : Nat) : Nat := (8 - (seg + termLen l v seg) % 8) % 8
def padCount (l : ECL) (v seg : Nat) : Nat := (T.maxBytes v * 8 - (seg + termLen l v seg + padLen l v seg) + 7) / 8

/-- everything `encode` appends to the empty buffer: segment, terminator, bit padding, pad codewords -/
theorem encode_bits (inp : List Nat) (l : ECL) (m : Mode) (v : Nat) (hv : v < 40)
    (hb : Spec.IsBytes inp) (halpha : Spec.alphabetOK m inp = true) (hfit : Spec.fits m l v inp.length = true) :
    (encode inp l m v).traps = [] ∧
    bitsOf (encode inp l m v).val =
      Bitstream.segment m v inp ++ List.replicate (termLen l v (Bitstream.segment m v inp).length) false ++
        List.replicate (padLen l v (Bitstream.segment m v inp).length) false ++
        ((List.range (padCount l v (Bitstream.segment m v inp).length)).map padByte).flatMap (Bitstream.toBits 8) ∧
    (encode inp l m v).val.data.size = T.maxBytes v * 8 ∧ Inv (encode inp l m v).val ∧
    (Bitstream.segment m v inp).length ≤ T.dataBits l v := by
  generalize hseg0 : Bitstream.segment m v inp = seg
  generalize ht0 : termLen l v seg.length = t
  generalize hp0 : padLen l v seg.length = p
  generalize hn0 : padCount l v seg.length = n
  have htdef : t = min (T.dataBits l v - seg.length) 4 := by rw [← ht0]; rfl
  have hpdef : p = (8 - (seg.length + t) % 8) % 8 := by rw [← hp0, ← ht0]; rfl
  have hndef : n = (T.maxBytes v * 8 - (seg.length + t + p) + 7) / 8 := by rw [← hn0, ← hp0, ← ht0]; rfl
  obtain ⟨hdb, hdc, hcci⟩ := Props.C05.C05_tables hv l m
  have hlay := Props.C02.C02_layout hv l
  -- sizes
  have hfit' : 4 + T.cciBits m v + payloadBits m inp.length ≤ T.dataBits l v := by
    simp only [Spec.fits, decide_eq_true_eq] at hfit
    rw [hcci, hdb]; exact hfit
  have hcci16 : T.cciBits m v ≤ 16 := Props.C06.C06_widths hv m
  have hmb : T.dataCodewords l v ≤ T.maxBytes v := by rw [hlay.2.2.2.2.2.2]; omega
  have hdbits : T.dataBits l v = T.dataCodewords l v * 8 := by rw [hdb, hdc]
  have hB : (T.maxBytes v * 8 + 8) / 8 + 1 < (Compact.fromVersion v).data.size := by
    simp only [Compact.fromVersion, Array.size_replicate]
    have : T.maxBytes v ≥ 1 := by omega
    omega
  have hinv0 := fromVersion_inv v
  have hlen0 : (Compact.fromVersion v).len = 0 := rfl
  -- the segment
  have hseg : ∃ c1 : Chk Compact, c1 = (match m with
      | .numeric => encodeNumeric (Compact.fromVersion v) inp (T.cciBits m v)
      | .alnum => encodeAlnum (Compact.fromVersion v) inp (T.cciBits m v)
      | .byte => encodeByte (Compact.fromVersion v) inp (T.cciBits m v)) ∧
      c1.traps = [] ∧ AppL (Compact.fromVersion v) c1.val seg := by
    refine ⟨_, rfl, ?_⟩
    cases m with
    | numeric =>
      have hd : Digits inp := fun x hx => ⟨hb x hx, by
        simp only [Spec.alphabetOK, List.all_eq_true] at halpha; exact halpha x hx⟩
      have := encodeNumeric_spec (Compact.fromVersion v) inp (T.cciBits .numeric v) (T.maxBytes v * 8 + 8) hd hinv0
        hcci16 (by rw [hlen0]; omega) hB
      simpa [← hseg0, Bitstream.segment, Bitstream.modeIndicator, Bitstream.payload, hcci] using this
    | alnum =>
      have hd : Alnums inp := fun x hx => ⟨hb x hx, by
        simp only [Spec.alphabetOK, List.all_eq_true] at halpha; exact halpha x hx⟩
      have := encodeAlnum_spec (Compact.fromVersion v) inp (T.cciBits .alnum v) (T.maxBytes v * 8 + 8) hd hinv0
        hcci16 (by rw [hlen0]; omega) hB
      simpa [← hseg0, Bitstream.segment, Bitstream.modeIndicator, Bitstream.payload, hcci] using this
    | byte =>
      have := encodeByte_spec (Compact.fromVersion v) inp (T.cciBits .byte v) (T.maxBytes v * 8 + 8) hb hinv0
        hcci16 (by rw [hlen0]; omega) hB
      simpa [← hseg0, Bitstream.segment, Bitstream.modeIndicator, Bitstream.payload, hcci] using this
  obtain ⟨c1, hc1, t1, a1⟩ := hseg
  have hseglen : seg.length = 4 + T.cciBits m v + payloadBits m inp.length := by
    rw [hcci, ← hseg0]; exact segment_length m v inp
  have l1 := appL_len a1
  rw [hlen0, Nat.zero_add] at l1
  have s1 := appL_size a1
  have hsz : (Compact.fromVersion v).data.size = T.maxBytes v * 8 := by simp [Compact.fromVersion]
  -- terminator
  have hsub : Chk.sub 134 (T.dataBits l v) c1.val.len = ⟨T.dataBits l v - seg.length, []⟩ := by
    simp [Chk.sub, l1]; omega
  obtain ⟨t2, a2⟩ := pushBits_appL c1.val 0 t (appL_inv a1) (by omega)
    (by rw [l1, s1, hsz]; omega)
  rw [toBits_zero] at a2
  have l2 := appL_len a2
  rw [List.length_replicate, l1] at l2
  have s2 := (appL_size a2).trans s1
  -- bit padding
  obtain ⟨t3, a3⟩ := pushBits_appL (pushBits c1.val 0 t).val 0 p (appL_inv a2) (by omega)
    (by rw [l2, s2, hsz]; omega)
  rw [toBits_zero] at a3
  have l3 := appL_len a3
  rw [List.length_replicate, l2] at l3
  have s3 := (appL_size a3).trans s2
  have hal3 : (pushBits (pushBits c1.val 0 t).val 0 p).val.len % 8 = 0 := by
    rw [l3]; omega
  -- pad codewords
  obtain ⟨t4, a4⟩ := fill_spec (pushBits (pushBits c1.val 0 t).val 0 p).val (appL_inv a3) hal3 (T.maxBytes v * 8 + 8)
    (by rw [l3, s3, hsz]; omega) (by rw [s3]; exact hB)
  have hn : ((pushBits (pushBits c1.val 0 t).val 0 p).val.data.size -
      (pushBits (pushBits c1.val 0 t).val 0 p).val.len + 7) / 8 = n := by
    rw [s3, hsz, l3, hndef]
  rw [hn] at a4
  -- assemble
  have hform : encode inp l m v = c1 >>= fun c => addTerminator c (T.dataBits l v) >>= fun c => padTo8 c >>= fun c => fill c := by
    rw [hc1]; cases m <;> rfl
  have hsub' : Chk.sub 134 (T.dataBits l v) c1.val.len = ⟨T.dataBits l v - seg.length, []⟩ := hsub
  have hval : (encode inp l m v).val = (fill (pushBits (pushBits c1.val 0 t).val 0 p).val).val := by
    rw [hform]
    simp only [Chk.val_bind, addTerminator, hsub', padTo8, ← htdef, l2, ← hpdef]
  have htraps : (encode inp l m v).traps = [] := by
    rw [hform]
    simp only [Chk.traps_bind, Chk.val_bind, addTerminator, hsub', padTo8, ← htdef, l2, ← hpdef, t1, t2, t3, t4,
      List.nil_append]
  have hall := ((a1.trans a2).trans a3).trans a4
  refine ⟨htraps, ?_, ?_, ?_, by omega⟩
  · rw [hval, hall.bits]
    simp [bitsOf, hlen0]
  · rw [hval, appL_size a4, s3, hsz]
  · rw [hval]; exact appL_inv a4

/-! ### from bits to data codewords -/

/-- 8 bits to a byte and back -/
theorem ofBits_toBits8 : ∀ x, x < 256 → Bitstream.ofBits (Bitstream.toBits 8 x) = x := by
  have h : (List.range 256).all (fun x => Bitstream.ofBits (Bitstream.toBits 8 x) == x) = true := by decide +kernel
  intro x hx
  have := (List.all_eq_true.mp h) x (List.mem_range.mpr hx)
  simpa using this

/-- the k-th byte of a clean buffer is its k-th group of 8 bits -/
theorem byte_eq_bits (c : Compact) (hinv : Inv c) (k : Nat) :
    c.data.getD k 0 = Bitstream.ofBits ((List.range 8).map fun j => bit c (8 * k + j)) := by
  have hx := hinv.bytes k
  have : (List.range 8).map (fun j => bit c (8 * k + j)) = Bitstream.toBits 8 (c.data.getD k 0) := by
    apply List.ext_getElem
    · simp [Bitstream.toBits]
    · intro j h1 h2
      have hj : j < 8 := by simpa using h1
      simp only [List.getElem_map, List.getElem_range, bit, Bitstream.toBits]
      have e1 : (8 * k + j) / 8 = k := by omega
      have e2 : (8 * k + j) % 8 = j := by omega
      rw [e1, e2, testBit_shift]
  rw [this, ofBits_toBits8 _ hx]

/-- `packBytes` on a whole number of bytes -/
theorem packBytes_get : ∀ (s : List Bool) (i : Nat), 8 * i + 8 ≤ s.length →
    (Bitstream.packBytes s).getD i 0 = Bitstream.ofBits ((s.drop (8 * i)).take 8)
  | a :: b :: c :: d :: e :: f :: g :: h :: rest, 0, _ => by
    simp [Bitstream.packBytes]
  | a :: b :: c :: d :: e :: f :: g :: h :: rest, i + 1, hl => by
    have := packBytes_get rest i (by simp at hl; omega)
    simp only [Bitstream.packBytes, List.getD_cons_succ, this]
    have e : 8 * (i + 1) = 8 * i + 8 := by omega
    rw [e]
    simp [List.drop_succ_cons]
  | [], i, hl => by simp at hl
  | [_], i, hl => by simp at hl
  | [_, _], i, hl => by simp at hl
  | [_, _, _], i, hl => by simp at hl
  | [_, _, _, _], i, hl => by simp at hl
  | [_, _, _, _, _], i, hl => by simp at hl
  | [_, _, _, _, _, _], i, hl => by simp at hl
  | [_, _, _, _, _, _, _], i, hl => by simp at hl

theorem packBytes_length : ∀ (s : List Bool), s.length % 8 = 0 → (Bitstream.packBytes s).length = s.length / 8
  | [], _ => rfl
  | a :: b :: c :: d :: e :: f :: g :: h :: rest, hl => by
    have := packBytes_length rest (by simp at hl; omega)
    simp only [Bitstream.packBytes, List.length_cons, this]; omega
  | [_], hl => by simp at hl
  | [_, _], hl => by simp at hl
  | [_, _, _], hl => by simp at hl
  | [_, _, _, _], hl => by simp at hl
  | [_, _, _, _, _], hl => by simp at hl
  | [_, _, _, _, _, _], hl => by simp at hl
  | [_, _, _, _, _, _, _], hl => by simp at hl

theorem drop_len_add {α : Type} (a b : List α) (k : Nat) : (a ++ b).drop (a.length + k) = b.drop k := by
  rw [← List.drop_drop, List.drop_left]

theorem chunk_flatMap : ∀ (l : List Nat) (j : Nat), j < l.length →
    ((l.flatMap (Bitstream.toBits 8)).drop (8 * j)).take 8 = Bitstream.toBits 8 (l.getD j 0)
  | x :: xs, 0, _ => by
    simp only [List.flatMap_cons, Nat.mul_zero, List.drop_zero, List.getD_cons_zero]
    rw [List.take_append_of_le_length (by simp [toBits_length])]
    rw [List.take_of_length_le (by simp [toBits_length])]
  | x :: xs, j + 1, h => by
    have ih := chunk_flatMap xs j (by simpa using h)
    simp only [List.flatMap_cons, List.getD_cons_succ]
    have e : 8 * (j + 1) = (Bitstream.toBits 8 x).length + 8 * j := by rw [toBits_length]; omega
    rw [e, drop_len_add, ih]
  | [], j, h => by simp at h

/-- the 8 bits starting at `8 i` of the bit view are the 8 bit positions of byte `i` -/
theorem bits_chunk (c : Compact) (i : Nat) (h : 8 * i + 8 ≤ c.len) :
    ((bitsOf c).drop (8 * i)).take 8 = (List.range 8).map fun j => bit c (8 * i + j) := by
  apply List.ext_getElem
  · simp [bitsOf]; omega
  · intro j h1 h2
    have hj : j < 8 := by simpa using h2
    simp [bitsOf, List.getElem_take, List.getElem_drop]

/-- **C06 (data codewords)**: for every payload of the mode's alphabet that fits version `v` at level
`l`, the first `data_codewords(v, l)` bytes of the buffer `encode::encode` returns are exactly the ISO
7.4 data codewords (`Spec.Bitstream.codewords`), and no trap is recorded -/
theorem encode_codewords (inp : List Nat) (l : ECL) (m : Mode) (v : Nat) (hv : v < 40)
    (hb : Spec.IsBytes inp) (halpha : Spec.alphabetOK m inp = true) (hfit : Spec.fits m l v inp.length = true) :
    (encode inp l m v).traps = [] ∧
    (encode inp l m v).val.data.toList.take (T.dataCodewords l v) = Bitstream.codewords m v l inp := by
  obtain ⟨htr, hbits, hsize, hinv, hsegle⟩ := encode_bits inp l m v hv hb halpha hfit
  refine ⟨htr, ?_⟩
  obtain ⟨hdb, hdc, _⟩ := Props.C05.C05_tables hv l m
  have hlay := Props.C02.C02_layout hv l
  have hmb : T.dataCodewords l v ≤ T.maxBytes v := by rw [hlay.2.2.2.2.2.2]; omega
  have hpad := Props.C06.C06_pad_bytes
  generalize hseg0 : Bitstream.segment m v inp = seg at hbits hsegle
  generalize hr0 : (encode inp l m v).val = r at hbits hsize hinv
  -- the byte-aligned head S and the pad bits
  have hS : ∃ S : List Bool, S = seg ++ List.replicate (termLen l v seg.length) false ++
      List.replicate (padLen l v seg.length) false := ⟨_, rfl⟩
  obtain ⟨S, hSdef⟩ := hS
  rw [← hSdef] at hbits
  have hSlen : S.length = seg.length + termLen l v seg.length + padLen l v seg.length := by
    rw [hSdef]; simp only [List.length_append, List.length_replicate]
  have hS8 : S.length % 8 = 0 := by rw [hSlen]; simp only [padLen]; omega
  have hSle : S.length ≤ T.dataCodewords l v * 8 := by
    rw [hSlen]; simp only [padLen, termLen]
    have : T.dataBits l v = T.dataCodewords l v * 8 := by rw [hdb, hdc]
    omega
  have hrlen : r.len = S.length + 8 * padCount l v seg.length := by
    have := congrArg List.length hbits
    simp only [bitsOf, List.length_map, List.length_range, List.length_append, bytesBits_length] at this
    rw [this]
  have hrge : T.dataCodewords l v * 8 ≤ r.len := by
    rw [hrlen, hSlen]; simp only [padCount]; omega
  -- the spec side
  have hspec : Bitstream.codewords m v l inp =
      Bitstream.packBytes S ++ (List.range (T.dataCodewords l v - (Bitstream.packBytes S).length)).map
        (fun i => if i % 2 == 0 then 0xEC else 0x11) := by
    have hd8 : Spec.dataBits v l / 8 = T.dataCodewords l v := by rw [← hdc]; omega
    simp only [Bitstream.codewords, hseg0, hd8]
    have e1 : min 4 (Spec.dataBits v l - seg.length) = termLen l v seg.length := by
      simp only [termLen, hdb]; omega
    have e2 : (8 - (seg ++ List.replicate (termLen l v seg.length) false).length % 8) % 8 = padLen l v seg.length := by
      simp only [padLen, List.length_append, List.length_replicate]
    rw [e1, e2, ← hSdef]
  rw [hspec]
  have hpl := packBytes_length S hS8
  apply List.ext_getElem
  · simp only [List.length_take, Array.length_toList, hsize, List.length_append, List.length_map, List.length_range, hpl]
    omega
  · intro i h1 h2
    have hi : i < T.dataCodewords l v := by
      simp only [List.length_take, Array.length_toList, hsize] at h1; omega
    have hL : (r.data.toList.take (T.dataCodewords l v))[i] = r.data.getD i 0 := by
      rw [List.getElem_take]
      simp [Array.getD_eq_getD_getElem?]
      rw [Array.getElem?_eq_getElem (by rw [hsize]; omega)]
      simp
    rw [hL, byte_eq_bits r hinv i, ← bits_chunk r i (by omega), hbits]
    by_cases hik : i < S.length / 8
    · rw [List.getElem_append_left (by rw [hpl]; exact hik)]
      have h8 : 8 * i + 8 ≤ S.length := by omega
      rw [List.drop_append_of_le_length (by omega), List.take_append_of_le_length (by simp; omega)]
      have := packBytes_get S i h8
      rw [List.getD_eq_getElem?_getD, List.getElem?_eq_getElem (by rw [hpl]; exact hik)] at this
      simpa using this.symm
    · rw [List.getElem_append_right (by rw [hpl]; omega)]
      simp only [List.getElem_map, List.getElem_range, hpl]
      have hd : 8 * i = S.length + 8 * (i - S.length / 8) := by omega
      rw [hd, drop_len_add]
      have hj : i - S.length / 8 < ((List.range (padCount l v seg.length)).map padByte).length := by
        simp only [List.length_map, List.length_range]
        have : 8 * i + 8 ≤ r.len := by omega
        rw [hrlen] at this; omega
      rw [chunk_flatMap _ _ hj]
      rw [List.getD_eq_getElem?_getD, List.getElem?_eq_getElem hj]
      simp only [List.getElem_map, List.getElem_range, Option.getD_some]
      rw [ofBits_toBits8 _ (padByte_lt _)]
      simp only [padByte, hpad]

end FastQr.Proofs.EncodeSound
