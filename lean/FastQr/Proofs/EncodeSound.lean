/-
The encoders of `encode.rs` on top of the bit-buffer law: for every payload of the mode's alphabet,
`encode_numeric` / `encode_alphanumeric` / `encode_byte` append exactly the ISO 7.4 segment bits
(mode indicator, character count, payload groups), without traps.
-/
import FastQr.Proofs.CompactSound
import FastQr.Props.C09
import FastQr.Model.Encode

namespace FastQr.Proofs.EncodeSound
open FastQr Model Model.Compact Spec Proofs.CompactSound

def bitsOf (c : Compact) : List Bool := (List.range c.len).map (bit c)

/-- `c'` is `c` with the bit list `l` appended -/
def AppL (c c' : Compact) (l : List Bool) : Prop := Appends c c' l.length (fun j => l.getD j false)

theorem AppL.refl (c : Compact) (h : Inv c) : AppL c c [] := Appends.refl c h _

theorem AppL.trans {c c1 c2 : Compact} {l1 l2 : List Bool} (h1 : AppL c c1 l1) (h2 : AppL c1 c2 l2) :
    AppL c c2 (l1 ++ l2) := by
  have := Appends.trans h1 h2
  simp only [AppL, List.length_append]
  apply this.congr
  intro j hj
  by_cases h : j < l1.length
  · simp only [h, if_true]
    rw [List.getD_eq_getElem?_getD, List.getD_eq_getElem?_getD, List.getElem?_append_left h]
  · simp only [h, if_false]
    rw [List.getD_eq_getElem?_getD, List.getD_eq_getElem?_getD, List.getElem?_append_right (by omega)]

theorem AppL.bits {c c' : Compact} {l : List Bool} (h : AppL c c' l) : bitsOf c' = bitsOf c ++ l := by
  obtain ⟨hl, _, _, hb⟩ := h
  apply List.ext_getElem
  · simp [bitsOf, hl]
  · intro i h1 h2
    simp only [bitsOf, List.getElem_map, List.getElem_range]
    rw [hb i]
    by_cases hi : i < c.len
    · rw [if_pos hi, List.getElem_append_left (by simpa [bitsOf] using hi)]
      simp [bitsOf]
    · have hi2 : i < c.len + l.length := by simpa [bitsOf, hl] using h1
      rw [if_neg hi, if_pos hi2, List.getElem_append_right (by simpa [bitsOf] using Nat.le_of_not_lt hi)]
      simp only [bitsOf, List.length_map, List.length_range]
      rw [List.getD_eq_getElem?_getD, List.getElem?_eq_getElem (by omega)]
      rfl

theorem testBit_shift (b i : Nat) : b.testBit i = ((b >>> i) % 2 == 1) := by
  rw [Nat.testBit_eq_decide_div_mod_eq, Nat.shiftRight_eq_div_pow]
  by_cases h : b / 2 ^ i % 2 = 1 <;> simp [h]

theorem toBits_getD (w b j : Nat) (hj : j < w) : (Bitstream.toBits w b).getD j false = b.testBit (w - 1 - j) := by
  rw [List.getD_eq_getElem?_getD, List.getElem?_eq_getElem (by simpa [Bitstream.toBits] using hj)]
  simp [Bitstream.toBits, testBit_shift]

theorem pushBits_appL (c : Compact) (b w : Nat) (hinv : Inv c) (hw : w ≤ 64) (hroom : (c.len + w) / 8 + 1 < c.data.size) :
    (pushBits c b w).traps = [] ∧ AppL c (pushBits c b w).val (Bitstream.toBits w b) := by
  obtain ⟨ht, ha⟩ := pushBits_spec c b w hinv hw hroom
  refine ⟨ht, ?_⟩
  have hl : (Bitstream.toBits w b).length = w := by simp [Bitstream.toBits]
  simp only [AppL, hl]
  apply ha.congr
  intro j hj
  exact (toBits_getD w b j hj).symm

theorem pushU8_appL (c : Compact) (b : Nat) (hb : b < 256) (hinv : Inv c) (hroom : (c.len + 8) / 8 < c.data.size) :
    (pushU8 c b).traps = [] ∧ AppL c (pushU8 c b).val (Bitstream.toBits 8 b) := by
  obtain ⟨pt, pl, ps, pi, pb⟩ := pushU8_spec c b hb hinv hroom
  refine ⟨pt, ?_⟩
  have hl : (Bitstream.toBits 8 b).length = 8 := by simp [Bitstream.toBits]
  have h0 : Appends c (pushU8 c b).val 8 (fun j => b.testBit (7 - j)) := ⟨pl, ps, pi, pb⟩
  simp only [AppL, hl]
  apply h0.congr
  intro j hj
  rw [toBits_getD 8 b j hj]

/-! ### numeric mode -/

def Digits (inp : List Nat) : Prop := ∀ x ∈ inp, x < 256 ∧ Spec.isDigit x = true

theorem asciiToDigit_ok {x : Nat} (hx : x < 256) (hd : Spec.isDigit x = true) : asciiToDigit x = ⟨x - 48, []⟩ := by
  have := (Props.C09.C09_tables hx).1
  simp [asciiToDigit, this, hd]

def triplesBits : List Nat → List Bool
  | a :: b :: d :: rest => Bitstream.toBits 10 ((a - 48) * 100 + (b - 48) * 10 + (d - 48)) ++ triplesBits rest
  | _ => []

/-- what is left after the complete triples -/
def tailOf : List Nat → List Nat
  | _ :: _ :: _ :: rest => tailOf rest
  | l => l

theorem triplesBits_length : ∀ (inp : List Nat), (triplesBits inp).length = 10 * (inp.length / 3)
  | [] => rfl
  | [_] => by simp [triplesBits]
  | [_, _] => by simp [triplesBits]
  | _ :: _ :: _ :: rest => by
    simp only [triplesBits, List.length_append, List.length_cons, triplesBits_length rest]
    simp [Bitstream.toBits]; omega

theorem digitsBits_split : ∀ (inp : List Nat), Bitstream.digitsBits inp = triplesBits inp ++ Bitstream.digitsBits (tailOf inp)
  | [] => rfl
  | [_] => rfl
  | [_, _] => rfl
  | a :: b :: d :: rest => by
    simp only [Bitstream.digitsBits, triplesBits, tailOf, List.append_assoc, digitsBits_split rest]

theorem tailOf_eq : ∀ (inp : List Nat), tailOf inp = numericTail inp ∧ (tailOf inp).length = inp.length % 3
  | [] => ⟨rfl, rfl⟩
  | [_] => ⟨rfl, rfl⟩
  | [_, _] => ⟨rfl, rfl⟩
  | a :: b :: d :: rest => by
    obtain ⟨h1, h2⟩ := tailOf_eq rest
    constructor
    · simp only [tailOf, h1, numericTail, List.length_cons]
      have e : (rest.length + 1 + 1 + 1) % 3 = rest.length % 3 := by omega
      have e2 : rest.length + 1 + 1 + 1 - rest.length % 3 = (rest.length - rest.length % 3) + 3 := by
        have := Nat.mod_le rest.length 3; omega
      rw [e, e2]
      rfl
    · simp only [tailOf, h2, List.length_cons]; omega

theorem triples_spec (B : Nat) : ∀ (inp : List Nat), Digits inp → ∀ c : Compact, Inv c →
    c.len + 10 * (inp.length / 3) ≤ B → B / 8 + 1 < c.data.size →
    (numericTriples c inp).traps = [] ∧ AppL c (numericTriples c inp).val (triplesBits inp)
  | [], _, c, hinv, _, _ => ⟨rfl, AppL.refl c hinv⟩
  | [_], _, c, hinv, _, _ => ⟨rfl, AppL.refl c hinv⟩
  | [_, _], _, c, hinv, _, _ => ⟨rfl, AppL.refl c hinv⟩
  | a :: b :: d :: rest, hd, c, hinv, hlen, hB => by
    have ha := hd a (by simp)
    have hb := hd b (by simp)
    have hdd := hd d (by simp)
    simp only [List.length_cons] at hlen
    have hq : (rest.length + 1 + 1 + 1) / 3 = rest.length / 3 + 1 := by omega
    rw [hq] at hlen
    obtain ⟨pt, pa⟩ := pushBits_appL c ((a - 48) * 100 + (b - 48) * 10 + (d - 48)) 10 hinv (by omega) (by omega)
    have hl1 := pa.1
    have hs1 := pa.2.1
    have hl1' : (pushBits c ((a - 48) * 100 + (b - 48) * 10 + (d - 48)) 10).val.len = c.len + 10 := by
      rw [hl1]; simp [Bitstream.toBits]
    obtain ⟨rt, ra⟩ := triples_spec B rest (fun x hx => hd x (by simp [hx])) _ pa.2.2.1
      (by rw [hl1']; omega) (by rw [hs1]; exact hB)
    simp only [numericTriples, asciiToDigit_ok ha.1 ha.2, asciiToDigit_ok hb.1 hb.2, asciiToDigit_ok hdd.1 hdd.2,
      bind, Chk.bind', List.nil_append, triplesBits]
    exact ⟨by simp [pt, rt], pa.trans ra⟩

theorem appL_len {c c' : Compact} {l : List Bool} (h : AppL c c' l) : c'.len = c.len + l.length := h.1
theorem appL_size {c c' : Compact} {l : List Bool} (h : AppL c c' l) : c'.data.size = c.data.size := h.2.1
theorem appL_inv {c c' : Compact} {l : List Bool} (h : AppL c c' l) : Inv c' := h.2.2.1
theorem toBits_length (w b : Nat) : (Bitstream.toBits w b).length = w := by simp [Bitstream.toBits]

theorem encodeNumeric_spec (c : Compact) (inp : List Nat) (cci B : Nat) (hd : Digits inp) (hinv : Inv c)
    (hcci : cci ≤ 16) (hlen : c.len + 4 + cci + payloadBits .numeric inp.length ≤ B) (hB : B / 8 + 1 < c.data.size) :
    (encodeNumeric c inp cci).traps = [] ∧
    AppL c (encodeNumeric c inp cci).val
      (Bitstream.toBits 4 1 ++ Bitstream.toBits cci inp.length ++ Bitstream.digitsBits inp) := by
  simp only [payloadBits] at hlen
  obtain ⟨t1, a1⟩ := pushBits_appL c 1 4 hinv (by omega) (by omega)
  have l1 := appL_len a1; rw [toBits_length] at l1
  obtain ⟨t2, a2⟩ := pushBits_appL _ inp.length cci (appL_inv a1) (by omega) (by rw [l1, appL_size a1]; omega)
  have l2 := appL_len a2; rw [toBits_length, l1] at l2
  have s2 : (pushBits (pushBits c 1 4).val inp.length cci).val.data.size = c.data.size := by
    rw [appL_size a2, appL_size a1]
  obtain ⟨t3, a3⟩ := triples_spec B inp hd _ (appL_inv a2) (by rw [l2]; omega) (by rw [s2]; exact hB)
  have l3 := appL_len a3; rw [triplesBits_length, l2] at l3
  have s3 := (appL_size a3).trans s2
  obtain ⟨htail, htl⟩ := tailOf_eq inp
  have hsplit := digitsBits_split inp
  have a123 := (a1.trans a2).trans a3
  simp only [encodeNumeric, bind, Chk.bind', ← htail]
  -- case analysis on the (at most two) trailing digits
  match hto : tailOf inp, htl with
  | [], _ =>
    rw [hto] at hsplit
    simp only [List.isEmpty_nil, if_true, pure, Chk.pure', List.append_nil]
    refine ⟨by simp [t1, t2, t3], ?_⟩
    rw [hsplit]; simpa [Bitstream.digitsBits] using a123
  | [x], hl1 =>
    rw [hto] at hsplit
    have hx := hd x (by
      have : x ∈ tailOf inp := by rw [hto]; simp
      rw [htail] at this; exact List.mem_of_mem_drop this)
    have hmod : inp.length % 3 = 1 := by simpa using hl1.symm
    obtain ⟨t4, a4⟩ := pushBits_appL _ (x - 48) 4 (appL_inv a3) (by omega) (by rw [l3, s3]; simp [hmod] at hlen; omega)
    simp only [List.isEmpty_cons, Bool.false_eq_true, if_false, List.foldlM_cons, List.foldlM_nil, bind, Chk.bind',
      asciiToDigit_ok hx.1 hx.2, pure, Chk.pure', Nat.zero_mul, Nat.zero_add, hmod, List.append_nil, List.nil_append]
    refine ⟨by simp [t1, t2, t3, t4], ?_⟩
    rw [hsplit]
    have := a123.trans a4
    simpa [Bitstream.digitsBits, List.append_assoc] using this
  | [x, y], hl2 =>
    rw [hto] at hsplit
    have hmem : ∀ z ∈ [x, y], z ∈ inp := by
      intro z hz
      have : z ∈ tailOf inp := by rw [hto]; exact hz
      rw [htail] at this; exact List.mem_of_mem_drop this
    have hx := hd x (hmem x (by simp))
    have hy := hd y (hmem y (by simp))
    have hmod : inp.length % 3 = 2 := by simpa using hl2.symm
    obtain ⟨t4, a4⟩ := pushBits_appL _ ((x - 48) * 10 + (y - 48)) 7 (appL_inv a3) (by omega)
      (by rw [l3, s3]; simp [hmod] at hlen; omega)
    simp only [List.isEmpty_cons, Bool.false_eq_true, if_false, List.foldlM_cons, List.foldlM_nil, bind, Chk.bind',
      asciiToDigit_ok hx.1 hx.2, asciiToDigit_ok hy.1 hy.2, pure, Chk.pure', Nat.zero_mul, Nat.zero_add, hmod,
      List.append_nil, List.nil_append]
    refine ⟨by simp [t1, t2, t3, t4], ?_⟩
    rw [hsplit]
    have := a123.trans a4
    simpa [Bitstream.digitsBits, List.append_assoc] using this
  | _ :: _ :: _ :: _, hl3 =>
    exfalso; simp only [List.length_cons] at hl3; omega

/-! ### alphanumeric mode -/

def Alnums (inp : List Nat) : Prop := ∀ x ∈ inp, x < 256 ∧ Spec.isAlnum x = true

theorem asciiToAlnum_ok {x : Nat} (hx : x < 256) (ha : Spec.isAlnum x = true) :
    asciiToAlnum x = ⟨(Spec.alnumValue x).getD 0, []⟩ ∧ (Spec.alnumValue x).getD 0 < 45 := by
  obtain ⟨h1, h2⟩ := Props.C09.C09_value_defined hx ha
  have hne : (T.alnumValue x == 255) = false := by
    have : T.alnumValue x ≠ 255 := by omega
    simpa using this
  simp [asciiToAlnum, hne, h2, h1]

def pairsBits : List Nat → List Bool
  | a :: b :: rest => Bitstream.toBits 11 ((Spec.alnumValue a).getD 0 * 45 + (Spec.alnumValue b).getD 0) ++ pairsBits rest
  | _ => []

def tail2 : List Nat → List Nat
  | _ :: _ :: rest => tail2 rest
  | l => l

theorem pairsBits_length : ∀ (inp : List Nat), (pairsBits inp).length = 11 * (inp.length / 2)
  | [] => rfl
  | [_] => by simp [pairsBits]
  | _ :: _ :: rest => by
    simp only [pairsBits, List.length_append, List.length_cons, pairsBits_length rest, toBits_length]; omega

theorem alnumBits_split : ∀ (inp : List Nat), Bitstream.alnumBits inp = pairsBits inp ++ Bitstream.alnumBits (tail2 inp)
  | [] => rfl
  | [_] => rfl
  | a :: b :: rest => by
    simp only [Bitstream.alnumBits, pairsBits, tail2, List.append_assoc, alnumBits_split rest]

theorem tail2_spec : ∀ (inp : List Nat),
    (inp.length % 2 = 0 → tail2 inp = []) ∧ (inp.length % 2 = 1 → ∃ l, inp.getLast? = some l ∧ tail2 inp = [l])
  | [] => ⟨fun _ => rfl, fun h => by simp at h⟩
  | [x] => ⟨fun h => by simp at h, fun _ => ⟨x, rfl, rfl⟩⟩
  | a :: b :: rest => by
    obtain ⟨h1, h2⟩ := tail2_spec rest
    simp only [List.length_cons, tail2]
    constructor
    · intro h; exact h1 (by omega)
    · intro h
      obtain ⟨l, hl, ht⟩ := h2 (by omega)
      refine ⟨l, ?_, ht⟩
      cases rest with
      | nil => simp at hl
      | cons r rs => simpa [List.getLast?_cons_cons] using hl

theorem pairs_spec (B : Nat) : ∀ (inp : List Nat), Alnums inp → ∀ c : Compact, Inv c →
    c.len + 11 * (inp.length / 2) ≤ B → B / 8 + 1 < c.data.size →
    (alnumPairs c inp).traps = [] ∧ AppL c (alnumPairs c inp).val (pairsBits inp)
  | [], _, c, hinv, _, _ => ⟨rfl, AppL.refl c hinv⟩
  | [_], _, c, hinv, _, _ => ⟨rfl, AppL.refl c hinv⟩
  | a :: b :: rest, hd, c, hinv, hlen, hB => by
    have ha := hd a (by simp)
    have hb := hd b (by simp)
    simp only [List.length_cons] at hlen
    have hq : (rest.length + 1 + 1) / 2 = rest.length / 2 + 1 := by omega
    rw [hq] at hlen
    obtain ⟨pt, pa⟩ := pushBits_appL c ((Spec.alnumValue a).getD 0 * 45 + (Spec.alnumValue b).getD 0) 11 hinv
      (by omega) (by omega)
    have hl1 := appL_len pa; rw [toBits_length] at hl1
    obtain ⟨rt, ra⟩ := pairs_spec B rest (fun x hx => hd x (by simp [hx])) _ (appL_inv pa)
      (by rw [hl1]; omega) (by rw [appL_size pa]; exact hB)
    simp only [alnumPairs, (asciiToAlnum_ok ha.1 ha.2).1, (asciiToAlnum_ok hb.1 hb.2).1, bind, Chk.bind',
      List.nil_append, pairsBits]
    exact ⟨by simp [pt, rt], pa.trans ra⟩

theorem encodeAlnum_spec (c : Compact) (inp : List Nat) (cci B : Nat) (hd : Alnums inp) (hinv : Inv c)
    (hcci : cci ≤ 16) (hlen : c.len + 4 + cci + payloadBits .alnum inp.length ≤ B) (hB : B / 8 + 1 < c.data.size) :
    (encodeAlnum c inp cci).traps = [] ∧
    AppL c (encodeAlnum c inp cci).val
      (Bitstream.toBits 4 2 ++ Bitstream.toBits cci inp.length ++ Bitstream.alnumBits inp) := by
  simp only [payloadBits] at hlen
  obtain ⟨t1, a1⟩ := pushBits_appL c 2 4 hinv (by omega) (by omega)
  have l1 := appL_len a1; rw [toBits_length] at l1
  obtain ⟨t2, a2⟩ := pushBits_appL _ inp.length cci (appL_inv a1) (by omega) (by rw [l1, appL_size a1]; omega)
  have l2 := appL_len a2; rw [toBits_length, l1] at l2
  have s2 : (pushBits (pushBits c 2 4).val inp.length cci).val.data.size = c.data.size := by
    rw [appL_size a2, appL_size a1]
  obtain ⟨t3, a3⟩ := pairs_spec B inp hd _ (appL_inv a2) (by rw [l2]; omega) (by rw [s2]; exact hB)
  have l3 := appL_len a3; rw [pairsBits_length, l2] at l3
  have s3 := (appL_size a3).trans s2
  have hsplit := alnumBits_split inp
  obtain ⟨he, ho⟩ := tail2_spec inp
  have a123 := (a1.trans a2).trans a3
  simp only [encodeAlnum, bind, Chk.bind']
  by_cases hodd : inp.length % 2 = 0
  · have hne : (inp.length % 2 != 0) = false := by simp [hodd]
    rw [he hodd] at hsplit
    simp only [hne, Bool.false_eq_true, if_false, pure, Chk.pure', List.append_nil]
    refine ⟨by simp [t1, t2, t3], ?_⟩
    rw [hsplit]; simpa [Bitstream.alnumBits] using a123
  · have hne : (inp.length % 2 != 0) = true := by simpa using hodd
    obtain ⟨l, hl, ht⟩ := ho (by omega)
    rw [ht] at hsplit
    have hlm : l ∈ inp := List.mem_of_getLast? hl
    have hlx := hd l hlm
    obtain ⟨t4, a4⟩ := pushBits_appL _ ((Spec.alnumValue l).getD 0) 6 (appL_inv a3) (by omega)
      (by rw [l3, s3]; have : inp.length % 2 = 1 := by omega
          omega)
    simp only [hne, if_true, hl, (asciiToAlnum_ok hlx.1 hlx.2).1, bind, Chk.bind', List.nil_append]
    refine ⟨by simp [t1, t2, t3, t4], ?_⟩
    rw [hsplit]
    have := a123.trans a4
    simpa [Bitstream.alnumBits, List.append_assoc] using this

/-! ### byte mode -/

def BytesIn (inp : List Nat) : Prop := ∀ x ∈ inp, x < 256

theorem u8s_spec (B : Nat) : ∀ (inp : List Nat), BytesIn inp → ∀ c : Compact, Inv c →
    c.len + 8 * inp.length ≤ B → B / 8 + 1 < c.data.size →
    (inp.foldlM pushU8 c).traps = [] ∧ AppL c (inp.foldlM pushU8 c).val (inp.flatMap (Bitstream.toBits 8))
  | [], _, c, hinv, _, _ => ⟨rfl, AppL.refl c hinv⟩
  | x :: rest, hd, c, hinv, hlen, hB => by
    simp only [List.length_cons] at hlen
    obtain ⟨pt, pa⟩ := pushU8_appL c x (hd x (by simp)) hinv (by omega)
    have hl1 := appL_len pa; rw [toBits_length] at hl1
    obtain ⟨rt, ra⟩ := u8s_spec B rest (fun y hy => hd y (by simp [hy])) _ (appL_inv pa)
      (by rw [hl1]; omega) (by rw [appL_size pa]; exact hB)
    simp only [List.foldlM_cons, bind, Chk.bind', List.flatMap_cons]
    exact ⟨by simp [pt, rt], pa.trans ra⟩

theorem encodeByte_spec (c : Compact) (inp : List Nat) (cci B : Nat) (hd : BytesIn inp) (hinv : Inv c)
    (hcci : cci ≤ 16) (hlen : c.len + 4 + cci + payloadBits .byte inp.length ≤ B) (hB : B / 8 + 1 < c.data.size) :
    (encodeByte c inp cci).traps = [] ∧
    AppL c (encodeByte c inp cci).val
      (Bitstream.toBits 4 4 ++ Bitstream.toBits cci inp.length ++ inp.flatMap (Bitstream.toBits 8)) := by
  simp only [payloadBits] at hlen
  obtain ⟨t1, a1⟩ := pushBits_appL c 4 4 hinv (by omega) (by omega)
  have l1 := appL_len a1; rw [toBits_length] at l1
  obtain ⟨t2, a2⟩ := pushBits_appL _ inp.length cci (appL_inv a1) (by omega) (by rw [l1, appL_size a1]; omega)
  have l2 := appL_len a2; rw [toBits_length, l1] at l2
  have s2 : (pushBits (pushBits c 4 4).val inp.length cci).val.data.size = c.data.size := by
    rw [appL_size a2, appL_size a1]
  obtain ⟨t3, a3⟩ := u8s_spec B inp hd _ (appL_inv a2) (by rw [l2]; omega) (by rw [s2]; exact hB)
  have hnoop : increaseLen (pushBits (pushBits c 4 4).val inp.length cci).val
      ((pushBits (pushBits c 4 4).val inp.length cci).val.len + 8 * inp.length) =
      (pushBits (pushBits c 4 4).val inp.length cci).val :=
    increaseLen_noop _ _ (by rw [l2, s2]; omega)
  simp only [encodeByte, bind, Chk.bind', pushU8Slice, hnoop]
  exact ⟨by simp [t1, t2, t3], (a1.trans a2).trans a3⟩

end FastQr.Proofs.EncodeSound
