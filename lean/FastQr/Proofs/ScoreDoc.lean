import FastQr.Props.C11Masks
import FastQr.Proofs.ScoreEq
import FastQr.Proofs.CandidateLight
import FastQr.Proofs.ScoreBounds
import FastQr.Finite.Col01
/-
C11 composed: every mask candidate of every placed matrix satisfies the hypotheses of `score_eq`
(labels of columns 0 and 1 agree: tier N `col01Ok`; a light module always remains), hence the selection
minimises the documented penalty.
-/
namespace FastQr.Proofs.ScoreDoc
open FastQr Model Spec Spec.Penalty Proofs Finite Proofs.ScoreEq

theorem region_col01 {v : Nat} (hv : v < 40) {r : Nat} (hr : r < Regions.side v) :
    (Regions.region v r 0).code = (Regions.region v r 1).code := by
  have h := all_range col01Ok_all v hv
  simp only [col01Ok, List.all_eq_true, List.mem_range, beq_iff_eq] at h
  exact h r (by simpa [Regions.ctx] using hr)

theorem mask_type {v m : Nat} (hv : v < 40) (hm : m < 8) (q : QR) (hq : WF q)
    (hn : q.n = 21 + 4 * v) {r c : Nat} (hr : r < q.n) (hc : c < q.n) :
    (applyMask m q).type r c = q.type r c := by
  simp only [QR.type, applyMask_get hv hm q hq hn hr hc]
  split
  · exact mtype_mtoggle _
  · rfl

/-- every mask candidate of every placed matrix satisfies the hypotheses of `score_eq` -/
theorem candidate_score {v m : Nat} (hv : v < 40) (hm : m < 8) (bytes : Array Nat) :
    let c := applyMask m (placeData (template v) bytes).1
    score c (transpose c) = Penalty.total (gridOf c) := by
  intro c
  obtain ⟨hpn, hpwf, hpp⟩ := placeData_template hv bytes
  have hsb := Total.side_bounds hv
  have hwf : WF c := applyMask_WF m _ hpwf
  have hnn : c.n = Regions.side v := by show (applyMask m _).n = _; rw [applyMask_n, hpn]
  apply score_eq
  · intro r
    by_cases hr : r < Regions.side v
    · have h0 : (0 : Nat) < Regions.side v := by omega
      have h1 : (1 : Nat) < Regions.side v := by omega
      have t0 := mask_type hv hm _ hpwf (by rw [hpn]; rfl) (r := r) (c := 0)
        (by rw [hpn]; exact hr) (by rw [hpn]; exact h0)
      have t1 := mask_type hv hm _ hpwf (by rw [hpn]; rfl) (r := r) (c := 1)
        (by rw [hpn]; exact hr) (by rw [hpn]; exact h1)
      show (applyMask m _).type r 0 = (applyMask m _).type r 1
      rw [t0, t1, (hpp r 0 hr h0).1, (hpp r 1 hr h1).1]
      exact region_col01 hv hr
    · -- outside the square both reads are past the end of the array
      have hsz : c.cells.size = Regions.side v * Regions.side v := by rw [hwf, hnn]
      have hge : Regions.side v * Regions.side v ≤ r * Regions.side v := Nat.mul_le_mul_right _ (by omega)
      simp only [QR.type, QR.get, hnn]
      rw [Array.getD_eq_getD_getElem?, Array.getD_eq_getD_getElem?,
        Array.getElem?_eq_none (by omega), Array.getElem?_eq_none (by omega)]
  · exact ScoreBounds.darkPercent_lt c hwf (by rw [hnn]; omega) (Total.candidate_light hv hm bytes)

/-- **C11**: with no mask forced, the emitted mask minimises the DOCUMENTED penalty (40 per 1011101
window, N-2 per run of N >= 5, 3 per 2x2 block, 10 per 5% step of the dark ratio) over all eight masks
applied to the same placed codewords — for every version, level and codeword sequence -/
theorem select_minimises_documented {v : Nat} (hv : v < 40) (l : ECL) (bytes : Array Nat) :
    let placed := (placeData (template v) bytes).1
    let best := (placeOnMatrix bytes l v none).val.2
    best < 8 ∧ ∀ m', m' < 8 →
      Penalty.total (gridOf (applyMask best placed)) ≤ Penalty.total (gridOf (applyMask m' placed)) := by
  intro placed best
  have hmo := Props.C11.C11_masks_order
  obtain ⟨hpn, hpwf, _⟩ := placeData_template hv bytes
  have hsb := Total.side_bounds hv
  -- the candidate list
  have hcs : (candidates placed).map (fun c => (c.mask, c.score)) =
      [0, 1, 2, 3, 4, 5, 6, 7].map (fun m => (m, score (applyMask m placed) (transpose (applyMask m placed)))) := by
    simp only [candidates, hmo, List.map_map]
    rfl
  have hbest : best = selectBest ((candidates placed).map (fun c => (c.mask, c.score))) (T.masksOrder.headD 0) := by
    simp only [best, placeOnMatrix, Chk.val_bind, Chk.val_pure, Option.getD_none]
    rfl
  obtain ⟨c, hc, hc1, hc2⟩ := Props.C11.C11_select_min ((candidates placed).map (fun c => (c.mask, c.score)))
    (T.masksOrder.headD 0) (by rw [hcs]; simp) (by
      intro c hc
      rw [hcs, List.mem_map] at hc
      obtain ⟨m, _, rfl⟩ := hc
      have := ScoreBounds.score_lt_million (applyMask m placed) (transpose (applyMask m placed)) rfl
        (by show (applyMask m placed).n ≤ 177; rw [applyMask_n, hpn]; omega)
      show score _ _ < 2 ^ 32 - 1
      omega)
  rw [← hbest] at hc1
  rw [hcs, List.mem_map] at hc
  obtain ⟨mb, hmb, rfl⟩ := hc
  simp only at hc1 hc2
  have hmb8 : mb < 8 := by
    simp only [List.mem_cons, List.not_mem_nil, or_false] at hmb
    rcases hmb with rfl | rfl | rfl | rfl | rfl | rfl | rfl | rfl <;> decide
  rw [← hc1]
  refine ⟨hmb8, ?_⟩
  intro m' hm'
  have hin : (m', score (applyMask m' placed) (transpose (applyMask m' placed))) ∈
      (candidates placed).map (fun c => (c.mask, c.score)) := by
    rw [hcs, List.mem_map]
    refine ⟨m', ?_, rfl⟩
    have : m' = 0 ∨ m' = 1 ∨ m' = 2 ∨ m' = 3 ∨ m' = 4 ∨ m' = 5 ∨ m' = 6 ∨ m' = 7 := by omega
    rcases this with rfl | rfl | rfl | rfl | rfl | rfl | rfl | rfl <;> simp
  have := hc2 _ hin
  simp only at this
  rw [← candidate_score hv hmb8 bytes, ← candidate_score hv hm' bytes]
  exact this
end FastQr.Proofs.ScoreDoc
