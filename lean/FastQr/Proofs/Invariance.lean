/-
Invariance lemmas: which cells each stage of `place_on_matrix` can change.
* stores: `applyWrites` leaves every cell at its last store, or untouched;
* `place_on_matrix_data`: changes only the value bit of `Data`-typed cells;
* masks: `Proofs/MaskSound.lean`.
From these, for EVERY payload / level / mask, the labels of a built symbol are the blank symbol's
(= ISO regions), every function-pattern module keeps its ISO value, and the format cells carry the
format word.
-/
import FastQr.Finite.FormatPos
import FastQr.Proofs.MaskSound
import FastQr.Proofs.PlaceInv
import FastQr.Proofs.TemplateSound
import FastQr.Model.Build

namespace FastQr.Proofs
open FastQr Model Spec Finite

/-! ### stores -/

theorem applyWrites_WF (q : QR) (ws : List Write) (h : WF q) : WF (applyWrites q ws) := by
  simp only [WF, applyWrites_n, applyWrites_size]; exact h

theorem applyWrites_cons (q : QR) (w : Write) (ws : List Write) :
    applyWrites q (w :: ws) = applyWrites (q.set w.1 w.2.1 w.2.2) ws := rfl

/-- after a list of in-square stores, a cell holds its last store, else its old content -/
theorem applyWrites_get (q : QR) (hq : WF q) (ws : List Write)
    (hws : ∀ w ∈ ws, w.1 < q.n ∧ w.2.1 < q.n) {r c : Nat} (hc : c < q.n) :
    (applyWrites q ws).get r c = (lastWrite ws r c).getD (q.get r c) := by
  induction ws generalizing q with
  | nil => rfl
  | cons w ws ih =>
    have hw := hws w (by simp)
    rw [applyWrites_cons, ih (q.set w.1 w.2.1 w.2.2) (set_WF hq _ _ _)
      (fun x hx => by simpa using hws x (by simp [hx])) (by simpa using hc)]
    rw [QR.get_set q _ hq hw.1 hw.2 hc]
    simp only [lastWrite]
    cases lastWrite ws r c with
    | some b => rfl
    | none =>
      by_cases h : w.1 = r ∧ w.2.1 = c
      · simp [h]
      · simp [h]

/-! ### the final matrix of `place_on_matrix` -/

/-- the matrix `place_on_matrix` returns for mask `m` (automatic or forced) -/
def finalMatrix (v : Nat) (bytes : Array Nat) (l : ECL) (m : Nat) : QR :=
  applyMask m (applyWrites (placeData (template v) bytes).1
    (formatWrites (placeData (template v) bytes).1.n (T.formatInfo l m)))

theorem placeOnMatrix_val (bytes : Array Nat) (l : ECL) (v : Nat) (forced : Option Nat) :
    (placeOnMatrix bytes l v forced).val.1 = finalMatrix v bytes l (placeOnMatrix bytes l v forced).val.2 := by
  simp only [placeOnMatrix, finalMatrix, Chk.val_bind, Chk.val_pure]

theorem lastWrite_some {ws : List Write} {r c b : Nat} (h : lastWrite ws r c = some b) :
    ∃ w ∈ ws, w.1 = r ∧ w.2.1 = c ∧ w.2.2 = b := by
  induction ws with
  | nil => simp [lastWrite] at h
  | cons w ws ih =>
    simp only [lastWrite] at h
    cases hl : lastWrite ws r c with
    | some b' =>
      rw [hl] at h
      simp only [Option.some.injEq] at h
      subst h
      obtain ⟨x, hx, hp⟩ := ih hl
      exact ⟨x, by simp [hx], hp⟩
    | none =>
      rw [hl] at h
      simp only at h
      split at h
      · rename_i hw
        simp only [Option.some.injEq] at h
        exact ⟨w, by simp, hw.1, hw.2, h⟩
      · simp at h

theorem formatPosOk_of {v m : Nat} (hv : v < 40) (l : ECL) (hm : m < 8) :
    formatPosOk v (T.formatInfo l m) = true :=
  all_range (all_ecl (all_range formatPosOk_all v hv) l) m hm

/-- **labels, function-pattern values and format bits of the final matrix**, for EVERY codeword
sequence, every level and mask -/
theorem finalMatrix_props {v m : Nat} (hv : v < 40) (hm : m < 8) (l : ECL) (bytes : Array Nat)
    {r c : Nat} (hr : r < Regions.side v) (hc : c < Regions.side v) :
    let f := finalMatrix v bytes l m
    f.n = Regions.side v ∧
    f.type r c = (Regions.region v r c).code ∧
    (∀ b, Regions.stdValue v r c = some b → f.value r c = b) ∧
    (∀ i, (Regions.formatCells (Regions.side v))[i]? = some (r, c) →
      f.get r c = mk ((T.formatInfo l m >>> (14 - i % 15)) % 2 == 1) tFormat) := by
  have hn := template_n hv
  obtain ⟨hpn, hpwf, hpp⟩ := placeData_template hv bytes
  have hfp := formatPosOk_of hv l hm
  simp only [formatPosOk, Bool.and_eq_true, and_assoc] at hfp
  obtain ⟨hb, hcells, hreg, hlast⟩ := hfp
  have hb' : ∀ w ∈ formatWrites (Regions.side v) (T.formatInfo l m),
      w.1 < (placeData (template v) bytes).1.n ∧ w.2.1 < (placeData (template v) bytes).1.n := by
    intro w hw
    simp only [writesInBounds, List.all_eq_true, decide_eq_true_eq] at hb
    rw [hpn]; exact hb w hw
  -- after the format stores
  have hW := applyWrites_get (placeData (template v) bytes).1 hpwf _ hb' (r := r) (c := c) (by rw [hpn]; exact hc)
  have hWwf := applyWrites_WF (placeData (template v) bytes).1 (formatWrites (Regions.side v) (T.formatInfo l m)) hpwf
  have hWn : (applyWrites (placeData (template v) bytes).1 (formatWrites (Regions.side v) (T.formatInfo l m))).n
      = 21 + 4 * v := by rw [applyWrites_n, hpn]; rfl
  have hmask := applyMask_get hv hm _ hWwf hWn (r := r) (c := c) (by rw [hWn]; exact hr) (by rw [hWn]; exact hc)
  obtain ⟨hpt, hpv⟩ := hpp r c hr hc
  simp only [finalMatrix, hpn]
  refine ⟨by rw [applyMask_n, hWn]; rfl, ?_, ?_, ?_⟩
  · -- labels
    simp only [QR.type, hmask]
    have htype : mtype ((applyWrites (placeData (template v) bytes).1
        (formatWrites (Regions.side v) (T.formatInfo l m))).get r c) = (Regions.region v r c).code := by
      rw [hW]
      cases hl : lastWrite (formatWrites (Regions.side v) (T.formatInfo l m)) r c with
      | none => simpa [QR.type] using hpt
      | some b =>
        obtain ⟨w, hw, rfl, rfl, rfl⟩ := lastWrite_some hl
        simp only [List.all_eq_true, Bool.and_eq_true, List.contains_eq_mem, decide_eq_true_eq, beq_iff_eq] at hcells hreg
        have hc1 := hcells w hw
        have := hreg _ hc1.1
        simp only [Option.getD_some, hc1.2, this]
        rfl
    split
    · rw [mtype_mtoggle]; exact htype
    · exact htype
  · -- function-pattern values
    intro b hstd
    have hnd : Regions.region v r c ≠ .data := by
      intro h; simp only [Regions.stdValue, Regions.stdValueIn, Regions.region] at hstd h; rw [h] at hstd; simp at hstd
    have hnf : Regions.region v r c ≠ .format := by
      intro h; simp only [Regions.stdValue, Regions.stdValueIn, Regions.region] at hstd h; rw [h] at hstd; simp at hstd
    have hnone : lastWrite (formatWrites (Regions.side v) (T.formatInfo l m)) r c = none := by
      cases hl : lastWrite (formatWrites (Regions.side v) (T.formatInfo l m)) r c with
      | none => rfl
      | some b' =>
        obtain ⟨w, hw, rfl, rfl, _⟩ := lastWrite_some hl
        simp only [List.all_eq_true, Bool.and_eq_true, List.contains_eq_mem, decide_eq_true_eq, beq_iff_eq] at hcells hreg
        exact absurd (hreg _ (hcells w hw).1) hnf
    have hget : (applyWrites (placeData (template v) bytes).1
        (formatWrites (Regions.side v) (T.formatInfo l m))).get r c = (template v).get r c := by
      rw [hW, hnone, Option.getD_none]; exact hpv hnd
    have htt := template_type hv hr hc
    have hnotdata : ¬ mtype ((template v).get r c) = tData := by
      simp only [QR.type] at htt
      rw [htt]
      intro h
      apply hnd
      cases hreg2 : Regions.region v r c <;> simp_all [Region.code, tData]
    have hfin : (applyMask m (applyWrites (placeData (template v) bytes).1
        (formatWrites (Regions.side v) (T.formatInfo l m)))).get r c = (template v).get r c := by
      rw [hmask, hget, if_neg (fun h => hnotdata h.1)]
    have := Props_template_value hv hr hc b hstd
    simp only [QR.value] at this ⊢
    rw [hfin]; exact this
  · -- format bits
    intro i hi
    have hmem : ((r, c), i) ∈ (Regions.formatCells (Regions.side v)).zipIdx := by
      rw [List.mem_zipIdx_iff_getElem?]; simpa using hi
    simp only [List.all_eq_true, beq_iff_eq] at hlast
    have hl := hlast _ hmem
    simp only at hl
    have hget : (applyWrites (placeData (template v) bytes).1
        (formatWrites (Regions.side v) (T.formatInfo l m))).get r c =
        mk ((T.formatInfo l m >>> (14 - i % 15)) % 2 == 1) tFormat := by rw [hW, hl]; rfl
    rw [hmask, hget]
    simp [mtype_mk, tFormat, tData]
where
  Props_template_value {v : Nat} (hv : v < 40) {r c : Nat} (hr : r < Regions.side v)
      (hc : c < Regions.side v) (b : Bool) (hf : Regions.stdValue v r c = some b) :
      (template v).value r c = b := by
    have hreg : Regions.region v r c ≠ .version := by
      intro h
      simp only [Regions.stdValue, Regions.stdValueIn, Regions.region] at hf h
      rw [h] at hf
      simp at hf
    simp only [QR.value, template_cell hv hr hc hreg, expectedCell, expectedCellIn, mval_mk]
    simp only [Regions.stdValue] at hf
    simp [hf]

end FastQr.Proofs
