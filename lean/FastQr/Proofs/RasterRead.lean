/-
C13: the ideal rasteriser (`Spec.Raster`) reads the model's SVG rendering as the scene one expects —
background colour, one layer per configured shape with that layer's colour, stroke flag and one shape per
dark module at (column + margin, row + margin).
-/
import FastQr.Proofs.SvgCheck
import FastQr.Spec.Raster

namespace FastQr.Proofs.RasterRead
open FastQr Model Model.Svg Spec.SvgParse Spec.Raster Proofs.SvgDoc Proofs.SvgPath Proofs.SvgPrint Proofs.SvgSafe

theorem canon_body (sh x y : Nat) : canon sh x y = body sh y x := by
  match sh with
  | 0 => rfl
  | 1 => rfl
  | 2 => rfl
  | 3 => rfl
  | 4 => rfl
  | n + 5 => rfl

/-- shape index as the reader reports it (every index from 5 on is the diamond, as in the crate's table) -/
def norm (sh : Nat) : Nat := if sh < 5 then sh else 5

theorem readSub_of (sub r r2 : List Char) (a b : Nat) (fx fy : Bool) (c : Char) (sh x : Nat)
    (h1 : number sub = some (a, fx, ',' :: r)) (h2 : number r = some (b, fy, c :: r2))
    (hg : guess fx fy c a = some (sh, x)) (hc : canon sh x b = sub) :
    readSub sub = some (sh, x, b) := by
  simp only [readSub, h1, h2, hg, hc, if_true]

theorem readSub_body0 (y x : Nat) : readSub (body 0 y x) = some (0, x, y) := by
  refine readSub_of _ ?r ?r2 x y false false 'h' 0 x ?h1 ?h2 rfl (canon_body 0 x y)
  case h1 =>
    simp only [body, List.append_assoc]
    exact number_int x ',' _ (by decide) (by decide)
  case h2 =>
    exact number_int y 'h' _ (by decide) (by decide)

theorem readSub_body1 (y x : Nat) : readSub (body 1 y x) = some (1, x, y) := by
  refine readSub_of _ ?r ?r2 (x + 1) y false true 'a' 1 x ?h1 ?h2 (by simp [guess]) (canon_body 1 x y)
  case h1 =>
    simp only [body, List.append_assoc]
    exact number_int (x + 1) ',' _ (by decide) (by decide)
  case h2 =>
    exact number_frac y '5' 'a' _ (by decide) (by decide)

theorem readSub_body2 (y x : Nat) : readSub (body 2 y x) = some (2, x, y) := by
  refine readSub_of _ ?r ?r2 x y true true ' ' 2 x ?h1 ?h2 rfl (canon_body 2 x y)
  case h1 =>
    simp only [body, List.append_assoc]
    exact number_frac x '2' ',' _ (by decide) (by decide)
  case h2 =>
    exact number_frac y '2' ' ' _ (by decide) (by decide)

theorem readSub_body3 (y x : Nat) : readSub (body 3 y x) = some (3, x, y) := by
  refine readSub_of _ ?r ?r2 x y true false 'h' 3 x ?h1 ?h2 rfl (canon_body 3 x y)
  case h1 =>
    simp only [body, List.append_assoc]
    exact number_frac x '1' ',' _ (by decide) (by decide)
  case h2 =>
    exact number_int y 'h' _ (by decide) (by decide)

theorem readSub_body4 (y x : Nat) : readSub (body 4 y x) = some (4, x, y) := by
  refine readSub_of _ ?r ?r2 x y false true 'h' 4 x ?h1 ?h2 rfl (canon_body 4 x y)
  case h1 =>
    simp only [body, List.append_assoc]
    exact number_int x ',' _ (by decide) (by decide)
  case h2 =>
    exact number_frac y '1' 'h' _ (by decide) (by decide)

theorem readSub_body5 (n : Nat) (y x : Nat) : readSub (body (n + 5) y x) = some (5, x, y) := by
  refine readSub_of _ ?r ?r2 x y true false 'l' 5 x ?h1 ?h2 rfl (canon_body (n + 5) x y)
  case h1 =>
    simp only [body, List.append_assoc]
    exact number_frac x '5' ',' _ (by decide) (by decide)
  case h2 =>
    exact number_int y 'l' _ (by decide) (by decide)

theorem readSub_body (sh y x : Nat) : readSub (body sh y x) = some (norm sh, x, y) := by
  match sh with
  | 0 => exact readSub_body0 y x
  | 1 => exact readSub_body1 y x
  | 2 => exact readSub_body2 y x
  | 3 => exact readSub_body3 y x
  | 4 => exact readSub_body4 y x
  | n + 5 => exact readSub_body5 n y x
theorem mapM_readSub (shape : Nat) : ∀ (cells : List (Nat × Nat)),
    (cells.map fun yx => body shape yx.1 yx.2).mapM readSub = some (cells.map fun yx => (norm shape, yx.2, yx.1))
  | [] => rfl
  | yx :: rest => by
    simp only [List.map_cons, List.mapM_cons, readSub_body, mapM_readSub shape rest]
    rfl

/-- the shapes of a layer: one per dark module -/
def modelCells (b : Builder) (q : QR) (sh : Nat) : List (Nat × Nat × Nat) :=
  (darkCells q).map fun yx => (norm sh, yx.2 + b.margin, yx.1 + b.margin)

def modelLayer (b : Builder) (q : QR) (sc : Nat × Option String) : Layer :=
  ⟨sc.2.getD b.dot, sc.1 == 2, modelCells b q sc.1⟩

theorem subPaths_layerD (b : Builder) (q : QR) (shape : Nat) :
    subPaths (Props.C12.layerD b q shape) =
      some ((darkCells q).map fun yx => body shape (yx.1 + b.margin) (yx.2 + b.margin)) := by
  have h := subPaths_pathData shape ((darkCells q).map fun yx => (yx.1 + b.margin, yx.2 + b.margin))
  simp only [List.map_map] at h
  exact h

theorem readSubs_layerD (b : Builder) (q : QR) (shape : Nat) :
    ((darkCells q).map fun yx => body shape (yx.1 + b.margin) (yx.2 + b.margin)).mapM readSub =
      some (modelCells b q shape) := by
  have h := mapM_readSub shape ((darkCells q).map fun yx => (yx.1 + b.margin, yx.2 + b.margin))
  simp only [List.map_map] at h
  exact h

theorem layerOf_plain (d color : String) (cells : List (Nat × Nat × Nat)) (subs : List (List Char))
    (h1 : subPaths d = some subs) (h2 : subs.mapM readSub = some cells) :
    layerOf (parsedTag (plainTag d color)) = some ⟨color, false, cells⟩ := by
  have n1 : (parsedTag (plainTag d color)).name = "path" := by simp [parsedTag, plainTag]
  have n2 : attr (parsedTag (plainTag d color)) "fill" = some color := by
    simp [parsedTag, plainTag, attr, parsedAttrs, sameL, same]
  have n3 : attr (parsedTag (plainTag d color)) "stroke" = none := by
    simp [parsedTag, plainTag, attr, parsedAttrs, sameL, same]
  have n4 : attr (parsedTag (plainTag d color)) "d" = some d := by
    simp [parsedTag, plainTag, attr, parsedAttrs, sameL, same]
  have n5 : attr (parsedTag (plainTag d color)) "stroke-width" = none := by
    simp [parsedTag, plainTag, attr, parsedAttrs, sameL, same]
  have n6 : attr (parsedTag (plainTag d color)) "stroke-linejoin" = none := by
    simp [parsedTag, plainTag, attr, parsedAttrs, sameL, same]
  simp only [layerOf, n1, n2, n3, n4, n5, n6, h1, h2, bne_self_eq_false, Bool.false_eq_true, if_false, false_and]

theorem layerOf_round (d color : String) (cells : List (Nat × Nat × Nat)) (subs : List (List Char))
    (h1 : subPaths d = some subs) (h2 : subs.mapM readSub = some cells) (h3 : cells.any (fun c => c.1 != 2) = false) :
    layerOf (parsedTag (roundTag d color)) = some ⟨color, true, cells⟩ := by
  have n1 : (parsedTag (roundTag d color)).name = "path" := by simp [parsedTag, roundTag]
  have n2 : attr (parsedTag (roundTag d color)) "fill" = some color := by
    simp [parsedTag, roundTag, attr, parsedAttrs, sameL, same]
  have n3 : attr (parsedTag (roundTag d color)) "stroke" = some color := by
    simp [parsedTag, roundTag, attr, parsedAttrs, sameL, same]
  have n4 : attr (parsedTag (roundTag d color)) "d" = some d := by
    simp [parsedTag, roundTag, attr, parsedAttrs, sameL, same]
  have n5 : attr (parsedTag (roundTag d color)) "stroke-width" = some ".3" := by
    simp [parsedTag, roundTag, attr, parsedAttrs, sameL, same]
  have n6 : attr (parsedTag (roundTag d color)) "stroke-linejoin" = some "round" := by
    simp [parsedTag, roundTag, attr, parsedAttrs, sameL, same]
  simp only [layerOf, n1, n2, n3, n4, n5, n6, h1, h2, h3, bne_self_eq_false, Bool.false_eq_true, if_false, if_true, and_false]

theorem layerOf_layerTag (b : Builder) (q : QR) (sc : Nat × Option String) :
    layerOf (parsedTag (layerTag b q sc)) = some (modelLayer b q sc) := by
  simp only [layerTag, layerTag', modelLayer]
  split
  · rename_i h2
    have hsh : sc.1 = 2 := by simpa using h2
    rw [layerOf_round _ _ (modelCells b q sc.1) _ (subPaths_layerD b q sc.1) (readSubs_layerD b q sc.1)]
    · simp [hsh]
    · simp [modelCells, hsh, norm]
  · rename_i h2
    have hsh : (sc.1 == 2) = false := by simpa using h2
    rw [layerOf_plain _ _ (modelCells b q sc.1) _ (subPaths_layerD b q sc.1) (readSubs_layerD b q sc.1), hsh]

/-- the scene of the model's rendering -/
def modelScene (b : Builder) (q : QR) : Scene := ⟨b.background, (layers b).map (modelLayer b q)⟩

/-- **the ideal rasteriser reads the rendering as the expected scene** (no embedded image) -/
theorem sceneOf_toStr (b : Builder) (q : QR) (hc : ColoursSafe b) (hi : b.image = none) :
    sceneOf (toStr b q) (q.n + 2 * b.margin) = some (modelScene b q) := by
  unfold sceneOf
  rw [SvgCheck.wf b q hc (fun h => absurd hi h)]
  have hside := SvgCheck.side_eq b q
  simp only [hside]
  have h1 : (parsedTag (rootTag b q)).name = "svg" := by simp [parsedTag, rootTag]
  have h2 : attr (parsedTag (rootTag b q)) "viewBox" =
      some s!"0 0 {String.ofList (sideC b q)} {String.ofList (sideC b q)}" := by
    simp only [parsedTag, rootTag, attr, parsedAttrs, sameL, same, List.map_cons, List.find?_cons]
    simp
    apply String.toList_injective
    simp [String.toList_append, toString_string]
  simp only [h1, h2, bne_self_eq_false, Bool.false_eq_true, or_self, if_false]
  have hch : (children b q).map parsedTag = parsedTag (bgTag b q) ::
      ((layers b).map fun sc => parsedTag (layerTag b q sc)) := by
    simp [children, imageTags, hi, List.map_map, Function.comp]
  rw [hch]
  simp only
  have b1 : (parsedTag (bgTag b q)).name = "rect" := by simp [parsedTag, bgTag]
  have b2 : attr (parsedTag (bgTag b q)) "width" = some (String.ofList (sideC b q) ++ "px") := by
    simp only [parsedTag, bgTag, attr, parsedAttrs, sameL, same, List.map_cons, List.find?_cons]
    simp
  have b3 : attr (parsedTag (bgTag b q)) "height" = some (String.ofList (sideC b q) ++ "px") := by
    simp only [parsedTag, bgTag, attr, parsedAttrs, sameL, same, List.map_cons, List.find?_cons]
    simp
  have b4 : attr (parsedTag (bgTag b q)) "fill" = some b.background := by
    simp [parsedTag, bgTag, attr, parsedAttrs, sameL, same]
  simp only [b1, b2, b3, b4, bne_self_eq_false, Bool.false_eq_true, or_self, if_false]
  have hl : ((layers b).map fun sc => parsedTag (layerTag b q sc)).mapM layerOf = some ((layers b).map (modelLayer b q)) := by
    generalize layers b = L
    induction L with
    | nil => rfl
    | cons sc rest ih => simp only [List.map_cons, List.mapM_cons, layerOf_layerTag, ih]; rfl
  rw [hl]
  rfl

end FastQr.Proofs.RasterRead
