import FastQr.Proofs.SvgSafe
/-
C12, document level: `Spec.SvgParse.check (expectOf b q) (toStr b q) = none` — the model's rendering is
well-formed and passes the whole reading the property demands, for every builder state with
attribute-safe colour strings and every matrix (legal size when an image is configured).
-/
namespace FastQr.Proofs.SvgCheck
open FastQr Model Model.Svg Spec.SvgParse Proofs.SvgDoc Proofs.SvgPath Proofs.SvgPrint Proofs.SvgSafe

def expectOf (b : Builder) (q : QR) : Expect :=
  { n := q.n, margin := b.margin, dark := q.value, background := b.background,
    layerColors := (layers b).map (fun sc => sc.2.getD b.dot), image := b.image }

theorem children_ok (b : Builder) (q : QR) (hc : ColoursSafe b) :
    ∀ t ∈ children b q, TagOk t ∧ t.selfc = true := by
  intro t ht
  simp only [children, List.mem_cons, List.mem_append, List.mem_map] at ht
  rcases ht with rfl | ⟨sc, hsc, rfl⟩ | ht
  · exact ⟨bgTag_ok b q hc, rfl⟩
  · refine ⟨layerTag_ok b q sc (hc.layers sc hsc), ?_⟩
    simp only [layerTag, layerTag']; split <;> rfl
  · unfold imageTags at ht
    split at ht
    · simp at ht
    · split at ht
      · simp at ht
      · simp only [List.mem_cons, List.mem_nil_iff, or_false] at ht
        rcases ht with rfl | rfl
        · exact ⟨frameTag_ok b _ hc, rfl⟩
        · exact ⟨imageTag_ok _ _, rfl⟩

theorem wf (b : Builder) (q : QR) (hc : ColoursSafe b) (hf : b.image ≠ none → frame b q.n ≠ none) :
    wellFormed (toStr b q) = some (parsedTag (rootTag b q), (children b q).map parsedTag) :=
  wellFormed_doc (toStr b q) (rootTag b q) (children b q) (toStr_print b q hf) (rootTag_ok b q) rfl (children_ok b q hc)

theorem ofList_eq {l : List Char} {s : String} (h : l = s.toList) : String.ofList l = s := by
  rw [h]; simp

theorem side_eq (b : Builder) (q : QR) : toString (q.n + 2 * b.margin) = String.ofList (sideC b q) := by
  have : q.n + 2 * b.margin = b.margin * 2 + q.n := by omega
  rw [this]
  exact (ofList_eq (toString_toList _).symm).symm

theorem attr_same_head (k v : String) (rest : List AAttr) (nm : List Char) (sc : Bool) :
    attr ⟨String.ofList nm, parsedAttrs (same k v :: rest), if sc then .selfClosing else .opening⟩ k = some v := by
  simp [attr, parsedAttrs, same]

/-- **C12 (document)**: for every builder state whose colour strings are attribute-safe and every symbol
(legal size when an image is configured), the rendering is well-formed and passes the whole reading the
property demands: svg root with the square viewBox, background rectangle of side size + 2·margin in the
background colour, one path per layer in order with exactly the dark modules and the layer's colour,
then nothing — or the frame rectangle and ONE image element whose un-escaped href is the image string -/
theorem document (b : Builder) (q : QR) (hc : ColoursSafe b) (hf : b.image ≠ none → frame b q.n ≠ none) :
    check (expectOf b q) (toStr b q) = none := by
  unfold check
  rw [wf b q hc hf]
  have hside := side_eq b q
  generalize hcells : expectedCells (expectOf b q) = cells
  simp only [expectOf, hside]
  -- root
  have h1 : (parsedTag (rootTag b q)).name = "svg" := by simp [parsedTag, rootTag]
  have h2 : attr (parsedTag (rootTag b q)) "viewBox" =
      some s!"0 0 {String.ofList (sideC b q)} {String.ofList (sideC b q)}" := by
    simp only [parsedTag, rootTag, attr, parsedAttrs, sameL, same, List.map_cons, List.find?_cons]
    simp
    apply String.toList_injective
    simp [String.toList_append, toString_string]
  simp only [h1, h2, bne_self_eq_false, Bool.false_eq_true, if_false, ne_eq, not_true_eq_false]
  -- the children: background, layers, image elements
  have hch : (children b q).map parsedTag = parsedTag (bgTag b q) ::
      (((layers b).map fun sc => parsedTag (layerTag b q sc)) ++ (imageTags b q.n).map parsedTag) := by
    simp [children, List.map_append, List.map_map, Function.comp]
  rw [hch]
  simp only
  have b1 : (parsedTag (bgTag b q)).name = "rect" := by simp [parsedTag, bgTag]
  have b2 : attr (parsedTag (bgTag b q)) "width" = some (String.ofList (sideC b q) ++ "px") := by
    simp only [parsedTag, bgTag, attr, parsedAttrs, sameL, same, List.map_cons, List.find?_cons]
    simp
  have b3 : attr (parsedTag (bgTag b q)) "height" = some (String.ofList (sideC b q) ++ "px") := by
    simp only [parsedTag, bgTag, attr, parsedAttrs, sameL, same, List.map_cons, List.find?_cons]
    simp
  have b4 : attr (parsedTag (bgTag b q)) "fill" = some b.background := by
    simp [parsedTag, bgTag, attr, parsedAttrs, sameL, same]
  simp only [b1, b2, b3, b4, bne_self_eq_false, Bool.false_eq_true, or_self, if_false]
  -- the layers
  have htake : List.take (layers b).length (((layers b).map fun sc => parsedTag (layerTag b q sc)) ++
      (imageTags b q.n).map parsedTag) = (layers b).map fun sc => parsedTag (layerTag b q sc) :=
    List.take_left' (by simp)
  have hdrop : List.drop (layers b).length (((layers b).map fun sc => parsedTag (layerTag b q sc)) ++
      (imageTags b q.n).map parsedTag) = (imageTags b q.n).map parsedTag :=
    List.drop_left' (by simp)
  simp only [List.length_map, htake, hdrop, bne_self_eq_false, Bool.false_eq_true, if_false]
  -- every layer passes
  have hlayer : ∀ sc ∈ layers b, layerCheck cells (parsedTag (layerTag b q sc), sc.2.getD b.dot) = none := by
    intro sc _
    have hd : cellsOf (Props.C12.layerD b q sc.1) = some cells := by
      rw [← hcells]
      exact Props.C12.C12_subpaths b q sc.1 b.background (List.map (fun sc => sc.snd.getD b.dot) (layers b)) b.image
    simp only [layerTag, layerTag', layerCheck]
    split
    · have n1 : (parsedTag (roundTag (Props.C12.layerD b q sc.1) (sc.2.getD b.dot))).name = "path" := by simp [parsedTag, roundTag]
      have n2 : attr (parsedTag (roundTag (Props.C12.layerD b q sc.1) (sc.2.getD b.dot))) "fill" = some (sc.2.getD b.dot) := by
        simp [parsedTag, roundTag, attr, parsedAttrs, sameL, same]
      have n3 : attr (parsedTag (roundTag (Props.C12.layerD b q sc.1) (sc.2.getD b.dot))) "stroke" = some (sc.2.getD b.dot) := by
        simp [parsedTag, roundTag, attr, parsedAttrs, sameL, same]
      have n4 : attr (parsedTag (roundTag (Props.C12.layerD b q sc.1) (sc.2.getD b.dot))) "d" = some (Props.C12.layerD b q sc.1) := by
        simp [parsedTag, roundTag, attr, parsedAttrs, sameL, same]
      simp only [n1, n2, n3, n4, hd, bne_self_eq_false, Bool.false_eq_true, if_false, and_false, beq_self_eq_true, if_true]
    · have n1 : (parsedTag (plainTag (Props.C12.layerD b q sc.1) (sc.2.getD b.dot))).name = "path" := by simp [parsedTag, plainTag]
      have n2 : attr (parsedTag (plainTag (Props.C12.layerD b q sc.1) (sc.2.getD b.dot))) "fill" = some (sc.2.getD b.dot) := by
        simp [parsedTag, plainTag, attr, parsedAttrs, sameL, same]
      have n3 : attr (parsedTag (plainTag (Props.C12.layerD b q sc.1) (sc.2.getD b.dot))) "stroke" = none := by
        simp [parsedTag, plainTag, attr, parsedAttrs, sameL, same]
      have n4 : attr (parsedTag (plainTag (Props.C12.layerD b q sc.1) (sc.2.getD b.dot))) "d" = some (Props.C12.layerD b q sc.1) := by
        simp [parsedTag, plainTag, attr, parsedAttrs, sameL, same]
      simp only [n1, n2, n3, n4, hd, bne_self_eq_false, Bool.false_eq_true, if_false, Option.isSome_none, false_and,
        beq_self_eq_true, if_true]
  have hzip : ((List.map (fun sc => parsedTag (layerTag b q sc)) (layers b)).zip
      (List.map (fun sc => sc.snd.getD b.dot) (layers b))) =
      (layers b).map (fun sc => (parsedTag (layerTag b q sc), sc.2.getD b.dot)) := by
    rw [List.zip_map']
  have hnone : List.findSome? (layerCheck cells)
      ((layers b).map (fun sc => (parsedTag (layerTag b q sc), sc.2.getD b.dot))) = none := by
    rw [List.findSome?_eq_none_iff]
    intro x hx
    rw [List.mem_map] at hx
    obtain ⟨sc, hsc, rfl⟩ := hx
    exact hlayer sc hsc
  rw [hzip, hnone]
  -- what follows the layers
  simp only [tailCheck, imageTags]
  cases hi : b.image with
  | none => rfl
  | some img =>
    cases hfr : frame b q.n with
    | none => exact absurd hfr (hf (by simp [hi]))
    | some f =>
      have i1 : (parsedTag (frameTag b f)).name = "rect" := by simp [parsedTag, frameTag]
      have i2 : (parsedTag (imageTag f img)).name = "image" := by simp [parsedTag, imageTag]
      have i3 : attr (parsedTag (imageTag f img)) "href" = some img := by
        simp [parsedTag, imageTag, attr, parsedAttrs, same]
      simp only [List.map_cons, List.map_nil, i1, i2, i3, bne_self_eq_false, Bool.false_eq_true, if_false]
end FastQr.Proofs.SvgCheck
