/- lifting closed `List.all` checks to ∀-statements -/
import FastQr.Types
namespace FastQr.Proofs

theorem all_range {p : Nat → Bool} {k : Nat} (h : (List.range k).all p = true) :
    ∀ i, i < k → p i = true := by
  intro i hi
  exact (List.all_eq_true.mp h) i (List.mem_range.mpr hi)

theorem all_ecl {p : ECL → Bool} (h : ECL.all.all p = true) : ∀ l, p l = true :=
  fun l => (List.all_eq_true.mp h) l (ECL.mem_all l)

theorem all_mode {p : Mode → Bool} (h : Mode.all.all p = true) : ∀ m, p m = true :=
  fun m => (List.all_eq_true.mp h) m (Mode.mem_all m)

/-- row-major index arithmetic -/
theorem idx_div {n r c : Nat} (hc : c < n) : (r * n + c) / n = r := by
  have hn : 0 < n := by omega
  rw [Nat.mul_comm, Nat.mul_add_div hn, Nat.div_eq_of_lt hc]; simp

theorem idx_mod {n r c : Nat} (hc : c < n) : (r * n + c) % n = c := by
  rw [Nat.mul_comm, Nat.mul_add_mod, Nat.mod_eq_of_lt hc]

theorem idx_lt {n r c : Nat} (hr : r < n) (hc : c < n) : r * n + c < n * n := by
  have : (r + 1) * n ≤ n * n := Nat.mul_le_mul_right n hr
  rw [Nat.add_mul] at this; omega

end FastQr.Proofs
