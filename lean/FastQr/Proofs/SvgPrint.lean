import FastQr.Proofs.SvgDoc
import FastQr.Proofs.SvgPath
import FastQr.Props.C12
/-
C12, document level, model part 1: the string `SvgBuilder::to_str` (model) produces, as a printed element
tree: `(toStr b q).toList = printTag root ++ children.flatMap printTag ++ </svg>` with explicit
attribute lists (string plumbing of the `format!` pieces).
-/
namespace FastQr.Proofs.SvgPrint
open FastQr Model Model.Svg Spec.SvgParse Proofs.SvgDoc Proofs.SvgPath

def same (k v : String) : AAttr := ⟨k.toList, v.toList, v.toList⟩
def sameL (k : String) (v : List Char) : AAttr := ⟨k.toList, v, v⟩

def sideC (b : Builder) (q : QR) : List Char := dig (b.margin * 2 + q.n)

def rootTag (b : Builder) (q : QR) : ATag :=
  ⟨"svg".toList, [sameL "viewBox" ("0 0 ".toList ++ sideC b q ++ ' ' :: sideC b q), same "xmlns" "http://www.w3.org/2000/svg"], false, false⟩

def bgTag (b : Builder) (q : QR) : ATag :=
  ⟨"rect".toList, [sameL "width" (sideC b q ++ "px".toList), sameL "height" (sideC b q ++ "px".toList),
    same "fill" b.background], true, false⟩

def plainTag (d color : String) : ATag :=
  ⟨"path".toList, [sameL "d" d.toList, same "fill" color], true, false⟩
def roundTag (d color : String) : ATag :=
  ⟨"path".toList, [sameL "d" d.toList, same "stroke-width" ".3", same "stroke-linejoin" "round", same "stroke" color,
    same "fill" color], true, false⟩
def layerTag' (d color : String) (isR : Bool) : ATag := if isR then roundTag d color else plainTag d color
def layerTag (b : Builder) (q : QR) (sc : Nat × Option String) : ATag :=
  layerTag' (Props.C12.layerD b q sc.1) (sc.2.getD b.dot) (sc.1 == 2)

theorem toString_string (s : String) : toString s = s := rfl

theorem toList_toString (n : Nat) : (toString n).toList = dig n := toString_toList n

theorem root_print (b : Builder) (q : QR) :
    (s!"<svg viewBox=\"0 0 {b.margin * 2 + q.n} {b.margin * 2 + q.n}\" xmlns=\"http://www.w3.org/2000/svg\">").toList =
      printTag (rootTag b q) := by
  simp only [String.toList_append, toList_toString, printTag, rootTag, closeText, sameL, same, attrText, sideC,
    List.flatMap_cons, List.flatMap_nil]
  simp
  rfl

theorem bg_print (b : Builder) (q : QR) :
    (s!"<rect width=\"{b.margin * 2 + q.n}px\" height=\"{b.margin * 2 + q.n}px\" fill=\"{b.background}\"/>").toList =
      printTag (bgTag b q) := by
  simp only [String.toList_append, toList_toString, printTag, bgTag, closeText, sameL, same, attrText, sideC,
    List.flatMap_cons, List.flatMap_nil]
  simp
  rfl

theorem layer_print_plain (d color : String) :
    ("<path d=\"" ++ d ++ "" ++ s!"\" fill=\"{color}\"/>").toList = printTag (plainTag d color) := by
  simp only [String.toList_append, printTag, plainTag, closeText, sameL, same, attrText,
    List.flatMap_cons, List.flatMap_nil, List.cons_append, List.nil_append, Bool.false_eq_true, if_false]
  simp
  rfl

theorem layer_print_round (d color : String) :
    ("<path d=\"" ++ d ++ s!"\" stroke-width=\".3\" stroke-linejoin=\"round\" stroke=\"{color}" ++
        s!"\" fill=\"{color}\"/>").toList = printTag (roundTag d color) := by
  simp only [String.toList_append, printTag, roundTag, closeText, sameL, same, attrText,
    List.flatMap_cons, List.flatMap_nil, List.cons_append, List.nil_append, if_true]
  simp
  rfl

theorem layer_print' (d color : String) (isR : Bool) :
    ("<path d=\"" ++ d ++
        (if isR then s!"\" stroke-width=\".3\" stroke-linejoin=\"round\" stroke=\"{color}" else "") ++
        s!"\" fill=\"{color}\"/>").toList = printTag (layerTag' d color isR) := by
  cases isR
  · exact layer_print_plain d color
  · exact layer_print_round d color

theorem layer_print (b : Builder) (q : QR) (sc : Nat × Option String) :
    ("<path d=\"" ++ Props.C12.layerD b q sc.1 ++
        (if sc.1 == 2 then s!"\" stroke-width=\".3\" stroke-linejoin=\"round\" stroke=\"{sc.2.getD b.dot}" else "") ++
        s!"\" fill=\"{sc.2.getD b.dot}\"/>").toList = printTag (layerTag b q sc) := by
  exact layer_print' _ _ _

theorem path_print (b : Builder) (q : QR) :
    (pathStr b q).toList = (layers b).flatMap fun sc => printTag (layerTag b q sc) := by
  rw [Props.C12.pathStr_eq, String.toList_join, List.flatMap_map]
  congr 1
  funext sc
  exact layer_print b q sc

def rxAttrs (shape : Nat) : List AAttr :=
  match shape with | 0 => [] | 1 => [same "rx" "1000px"] | _ => [same "rx" "1px"]

def frameTag (b : Builder) (f : Frame) : ATag :=
  ⟨"rect".toList, [same "x" f.x.display, same "y" f.y.display, same "width" f.border.display,
    same "height" f.border.display, same "fill" b.imageBg] ++ rxAttrs b.imageBgShape, true, false⟩

def imageTag (f : Frame) (img : String) : ATag :=
  ⟨"image".toList, [same "x" f.ix.fixed2, same "y" f.iy.fixed2, same "width" f.isize.fixed2,
    same "height" f.isize.fixed2, ⟨"href".toList, escape img.toList, img.toList⟩], true, true⟩

def frameTagX (b : Builder) (f : Frame) (extra : List AAttr) : ATag :=
  ⟨"rect".toList, [same "x" f.x.display, same "y" f.y.display, same "width" f.border.display,
    same "height" f.border.display, same "fill" b.imageBg] ++ extra, true, false⟩

theorem frame_print (b : Builder) (f : Frame) (rx : String) (extra : List AAttr)
    (hrx : rx.toList = extra.flatMap fun a => attrText a.key a.raw) :
    (s!"<rect x=\"{f.x.display}\" y=\"{f.y.display}\" width=\"{f.border.display}\" height=\"{f.border.display}\" fill=\"{b.imageBg}\"{rx}/>").toList =
      printTag (frameTagX b f extra) := by
  simp only [String.toList_append, toString_string, printTag, frameTagX, closeText, same, attrText,
    List.flatMap_cons, List.flatMap_nil, List.flatMap_append, List.cons_append, List.append_assoc, hrx]
  rfl

theorem image_print (f : Frame) (img : String) :
    (s!"<image x=\"{f.ix.fixed2}\" y=\"{f.iy.fixed2}\" width=\"{f.isize.fixed2}\" height=\"{f.isize.fixed2}\" href=\"{String.ofList (escape img.toList)}\" />").toList =
      printTag (imageTag f img) := by
  simp only [String.toList_append, toString_string, String.toList_ofList, printTag, imageTag, closeText, same, attrText,
    List.flatMap_cons, List.flatMap_nil, List.cons_append, List.append_assoc]
  rfl

/-- the elements after the layers -/
def imageTags (b : Builder) (n : Nat) : List ATag :=
  match b.image with
  | none => []
  | some img => match frame b n with
    | none => []
    | some f => [frameTag b f, imageTag f img]

theorem imageStr_print (b : Builder) (n : Nat) (hf : b.image ≠ none → frame b n ≠ none) :
    (imageStr b n).toList = (imageTags b n).flatMap printTag := by
  unfold imageStr imageTags
  cases hi : b.image with
  | none => rfl
  | some img =>
    cases hfr : frame b n with
    | none => exact absurd hfr (hf (by simp [hi]))
    | some f =>
      simp only [List.flatMap_cons, List.flatMap_nil, List.append_nil]
      rw [String.toList_append, image_print f img]
      refine congrArg (fun l => l ++ printTag (imageTag f img)) ?_
      have hft : frameTag b f = frameTagX b f (rxAttrs b.imageBgShape) := rfl
      rw [hft]
      split
      · rename_i h0
        exact frame_print b f "" (rxAttrs b.imageBgShape) (by simp [rxAttrs, h0])
      · rename_i h1
        exact frame_print b f " rx=\"1000px\"" (rxAttrs b.imageBgShape) (by simp [rxAttrs, h1, same, attrText])
      · rename_i h0 h1
        refine frame_print b f " rx=\"1px\"" (rxAttrs b.imageBgShape) ?_
        unfold rxAttrs
        split
        · rename_i heq; exact absurd heq h0
        · rename_i heq; exact absurd heq h1
        · simp [same, attrText]

def children (b : Builder) (q : QR) : List ATag :=
  bgTag b q :: ((layers b).map (layerTag b q) ++ imageTags b q.n)

/-- **the rendering as a printed element tree** -/
theorem toStr_print (b : Builder) (q : QR) (hf : b.image ≠ none → frame b q.n ≠ none) :
    (toStr b q).toList = printTag (rootTag b q) ++ ((children b q).flatMap printTag ++ closeTagText (rootTag b q).name) := by
  unfold toStr
  rw [String.toList_append, String.toList_append, String.toList_append, String.toList_append, root_print, bg_print,
    path_print, imageStr_print b q.n hf]
  simp only [children, List.flatMap_cons, List.flatMap_append, List.flatMap_map, List.append_assoc]
  rfl
end FastQr.Proofs.SvgPrint
