import FastQr.Props.C05Tables
import FastQr.Proofs.ParseSound
import FastQr.Proofs.EncodeSound
/-
C01 stage (f), composed: `Spec.Bitstream.parse` applied to the bits of `Spec.Bitstream.codewords` returns
the mode and the input (uses C05: the count fits its field; table facts; EncodeSound length lemmas).
-/
namespace FastQr.Proofs.ParseRoundTrip
open FastQr Spec Spec.Bitstream FastQr.Proofs.ParseSound

def padFn (i : Nat) : Nat := if i % 2 == 0 then 0xEC else 0x11
theorem padFn_lt (i : Nat) : padFn i < 256 := by unfold padFn; split <;> omega

theorem tailOk_ok (used t p n : Nat) (ht : t = min 4 (t + p + 8 * n)) (hp : p = (8 - (used + t) % 8) % 8) :
    tailOk used (List.replicate t false ++ (List.replicate p false ++ ((List.range n).map padFn).flatMap (toBits 8))) = true := by
  generalize hP : ((List.range n).map padFn).flatMap (toBits 8) = P
  have hPl : P.length = 8 * n := by
    rw [← hP]
    have : ∀ L : List Nat, (L.flatMap (toBits 8)).length = 8 * L.length := by
      intro L; induction L with
      | nil => rfl
      | cons x xs ih => simp only [List.flatMap_cons, List.length_append, toBits_length, ih, List.length_cons]; omega
    rw [this]; simp
  have hlen : (List.replicate t false ++ (List.replicate p false ++ P)).length = t + p + 8 * n := by
    simp [hPl]; omega
  have hz : List.replicate t false ++ (List.replicate p false ++ P) = List.replicate (t + p) false ++ P := by
    rw [← List.append_assoc, List.replicate_append_replicate]
  simp only [tailOk, hlen, ← ht, ← hp]
  rw [hz]
  have h1 : (List.replicate (t + p) false ++ P).take (t + p) = List.replicate (t + p) false := by
    have := List.take_left (l₁ := List.replicate (t + p) false) (l₂ := P)
    simpa using this
  have h2 : (List.replicate (t + p) false ++ P).drop (t + p) = P := by
    have := List.drop_left (l₁ := List.replicate (t + p) false) (l₂ := P)
    simpa using this
  rw [h1, h2]
  have h3 : packBytes P = (List.range n).map padFn := by
    rw [← hP]; apply packBytes_flatMap
    intro x hx; simp only [List.mem_map] at hx; obtain ⟨i, _, rfl⟩ := hx; exact padFn_lt i
  rw [h3]
  have h4 := padsOk_range n
  simp only [List.length_replicate, hPl, beq_self_eq_true, Bool.true_and, Bool.and_eq_true, Bool.not_eq_true',
    beq_iff_eq]
  refine ⟨⟨?_, by omega⟩, h4⟩
  simp

theorem parse_segment (m : Mode) (v : Nat) (inp : List Nat) (hb : IsBytes inp) (halpha : alphabetOK m inp = true)
    (hcnt : inp.length < 2 ^ cciBits m v) (tl : List Bool)
    (htl : tailOk (segment m v inp).length tl = true) :
    parse v (segment m v inp ++ tl) = some ⟨m, inp⟩ := by
  have hsl : (segment m v inp ++ tl).length - tl.length = (segment m v inp).length := by simp
  have hshape : segment m v inp ++ tl =
      toBits 4 (modeIndicator m) ++ (toBits (cciBits m v) inp.length ++ (payload m inp ++ tl)) := by
    simp [segment, List.append_assoc]
  obtain ⟨a1, a2, a3⟩ := field_back 4 (modeIndicator m) (toBits (cciBits m v) inp.length ++ (payload m inp ++ tl))
    (by cases m <;> decide)
  obtain ⟨b1, b2, b3⟩ := field_back (cciBits m v) inp.length (payload m inp ++ tl) hcnt
  rw [hshape] at hsl
  unfold parse
  rw [hshape]
  have n1 : ¬ (toBits 4 (modeIndicator m) ++ (toBits (cciBits m v) inp.length ++ (payload m inp ++ tl))).length < 4 := by omega
  have n2 : ¬ (toBits (cciBits m v) inp.length ++ (payload m inp ++ tl)).length < cciBits m v := by omega
  simp only [n1, if_false, a1, a2]
  cases m with
  | numeric =>
    have hp : parseDigits inp.length (payload .numeric inp ++ tl) = some (inp, tl) := by
      apply parseDigits_ok
      intro x hx
      simp only [alphabetOK, List.all_eq_true] at halpha
      simpa [isDigit] using halpha x hx
    simp only [modeIndicator] at hsl
    simp only [modeIndicator, beq_self_eq_true, if_true, n2, if_false, b1, b2, hp, hsl, htl, Nat.reduceBEq, Bool.false_eq_true]
  | alnum =>
    have hp : parseAlnum inp.length (payload .alnum inp ++ tl) = some (inp, tl) := by
      apply parseAlnum_ok
      intro x hx
      simp only [alphabetOK, List.all_eq_true] at halpha
      exact halpha x hx
    simp only [modeIndicator] at hsl
    simp only [modeIndicator, beq_self_eq_true, if_true, n2, if_false, b1, b2, hp, hsl, htl, Nat.reduceBEq, Bool.false_eq_true]
  | byte =>
    have hp : parseBytes inp.length (payload .byte inp ++ tl) = some (inp, tl) := parseBytes_ok inp hb tl
    simp only [modeIndicator] at hsl
    simp only [modeIndicator, beq_self_eq_true, if_true, n2, if_false, b1, b2, hp, hsl, htl, Nat.reduceBEq, Bool.false_eq_true]

/-- **C01 stage (f)**: the strict parser returns mode and input from the ISO data codewords -/
theorem parse_codewords (m : Mode) (v : Nat) (l : ECL) (inp : List Nat) (hv : v < 40) (hb : IsBytes inp)
    (halpha : alphabetOK m inp = true) (hfit : fits m l v inp.length = true) :
    parse v ((codewords m v l inp).flatMap (toBits 8)) = some ⟨m, inp⟩ := by
  obtain ⟨_, hdc, _⟩ := Props.C05.C05_tables hv l m
  have hcnt := Props.C05.C05_count_fits m l hv inp.length hfit
  have hsegl := Proofs.EncodeSound.segment_length m v inp
  have hfit' : 4 + cciBits m v + payloadBits m inp.length ≤ dataBits v l := by
    simpa [fits] using hfit
  generalize hseg : segment m v inp = seg at hsegl
  generalize hcap : dataBits v l = cap at hfit' hdc
  have hcap8 : cap % 8 = 0 := by omega
  have hS : ∃ t p, t = min 4 (cap - seg.length) ∧ p = (8 - (seg.length + t) % 8) % 8 := ⟨_, _, rfl, rfl⟩
  obtain ⟨t, p, ht, hp⟩ := hS
  have hcw : codewords m v l inp =
      packBytes (seg ++ List.replicate t false ++ List.replicate p false) ++
        (List.range (cap / 8 - (packBytes (seg ++ List.replicate t false ++ List.replicate p false)).length)).map padFn := by
    simp only [codewords, hseg, hcap, List.length_append, List.length_replicate, ← ht, ← hp]
    rfl
  have hs2 : (seg ++ List.replicate t false ++ List.replicate p false).length % 8 = 0 := by
    simp only [List.length_append, List.length_replicate]; omega
  have hs2l : (seg ++ List.replicate t false ++ List.replicate p false).length = seg.length + t + p := by
    simp only [List.length_append, List.length_replicate]
  rw [hcw, List.flatMap_append, flatMap_packBytes _ hs2, Proofs.EncodeSound.packBytes_length _ hs2, hs2l]
  rw [List.append_assoc, List.append_assoc, ← hseg]
  apply parse_segment m v inp hb halpha hcnt
  rw [hseg]
  apply tailOk_ok
  · omega
  · exact hp
end FastQr.Proofs.ParseRoundTrip
