/- `place_on_matrix_data` changes only the value bit of `Data`-typed cells; on the blank symbol of a version the
labels stay the ISO regions (tier N `templateOk`, `scanOk`). No format-position facts needed. -/
import FastQr.Finite.Scan
import FastQr.Proofs.MaskSound
import FastQr.Proofs.TemplateSound
import FastQr.Model.Build

namespace FastQr.Proofs
open FastQr Model Spec Finite

theorem set_WF {q : QR} (h : WF q) (r c b : Nat) : WF (q.set r c b) := WF_set h r c b

/-! ### data placement -/

theorem placeStep_props (bytes : Array Nat) (q : QR) (idx : Nat) (hq : WF q) (yx : Nat × Nat)
    (hy : yx.1 < q.n) (hx : yx.2 < q.n) :
    let s := placeStep bytes (q, idx) yx
    s.1.n = q.n ∧ WF s.1 ∧ ∀ r c, c < q.n →
      mtype (s.1.get r c) = mtype (q.get r c) ∧ (mtype (q.get r c) ≠ tData → s.1.get r c = q.get r c) := by
  simp only [placeStep]
  split
  · rename_i hd
    refine ⟨rfl, set_WF hq _ _ _, ?_⟩
    intro r c hc
    rw [QR.get_set q _ hq hy hx hc]
    by_cases h : yx.1 = r ∧ yx.2 = c
    · obtain ⟨rfl, rfl⟩ := h
      simp only [and_self, if_true, mtype_mset, true_and]
      intro hne
      exact absurd (by simpa using hd) hne
    · simp [h]
  · exact ⟨rfl, hq, fun r c _ => ⟨rfl, fun _ => rfl⟩⟩

theorem placeFold_props (bytes : Array Nat) (coords : List (Nat × Nat)) (q : QR) (idx : Nat) (hq : WF q)
    (hco : ∀ yx ∈ coords, yx.1 < q.n ∧ yx.2 < q.n) :
    let s := coords.foldl (placeStep bytes) (q, idx)
    s.1.n = q.n ∧ WF s.1 ∧ ∀ r c, c < q.n →
      mtype (s.1.get r c) = mtype (q.get r c) ∧ (mtype (q.get r c) ≠ tData → s.1.get r c = q.get r c) := by
  induction coords generalizing q idx with
  | nil => exact ⟨rfl, hq, fun r c _ => ⟨rfl, fun _ => rfl⟩⟩
  | cons yx rest ih =>
    have hyx := hco yx (by simp)
    obtain ⟨hn1, hwf1, hp1⟩ := placeStep_props bytes q idx hq yx hyx.1 hyx.2
    rw [List.foldl_cons]
    have := ih (placeStep bytes (q, idx) yx).1 (placeStep bytes (q, idx) yx).2 hwf1
      (fun p hp => by rw [hn1]; exact hco p (by simp [hp]))
    obtain ⟨hn2, hwf2, hp2⟩ := this
    refine ⟨by rw [hn2, hn1], hwf2, ?_⟩
    intro r c hc
    obtain ⟨ht1, hv1⟩ := hp1 r c hc
    obtain ⟨ht2, hv2⟩ := hp2 r c (by rw [hn1]; exact hc)
    refine ⟨by rw [ht2, ht1], fun hne => ?_⟩
    rw [hv2 (by rw [ht1]; exact hne), hv1 hne]

/-- `place_on_matrix_data` on the blank symbol of a version: labels unchanged everywhere, non-Data
cells unchanged -/
theorem placeData_template {v : Nat} (hv : v < 40) (bytes : Array Nat) :
    let p := (placeData (template v) bytes).1
    p.n = Regions.side v ∧ WF p ∧ ∀ r c, r < Regions.side v → c < Regions.side v →
      p.type r c = (Regions.region v r c).code ∧
      ((Regions.region v r c) ≠ .data → p.get r c = (template v).get r c) := by
  have hn := template_n hv
  have hwf : WF (template v) := by simp only [WF, template_size hv, hn]
  have hscan := (Props_scan hv)
  obtain ⟨h1, h2, h3⟩ := placeFold_props bytes (scanCoords (template v).n) (template v) 0 hwf
    (by rw [hn]; exact hscan)
  refine ⟨by simp only [placeData]; rw [h1, hn], h2, ?_⟩
  intro r c hr hc
  obtain ⟨ht, hval⟩ := h3 r c (by rw [hn]; exact hc)
  have htt := template_type hv hr hc
  refine ⟨by simp only [QR.type, placeData] at htt ⊢; rw [ht]; exact htt, fun hne => ?_⟩
  apply hval
  simp only [QR.type] at htt
  rw [htt]
  intro h
  apply hne
  cases hreg : Regions.region v r c <;> simp_all [Region.code, tData]
where
  Props_scan {v : Nat} (hv : v < 40) :
      ∀ yx ∈ scanCoords (Regions.side v), yx.1 < Regions.side v ∧ yx.2 < Regions.side v := by
    have h := all_range scanOk_all v hv
    simp only [scanOk, Bool.and_eq_true, and_assoc] at h
    have h2 := h.2.1
    simp only [List.all_eq_true, decide_eq_true_eq] at h2
    exact h2

end FastQr.Proofs
