/-
Lifts of the tier-K checks of the regenerated GF(256) tables and generator literals (Finite/Tables)
to per-index statements.
-/
import FastQr.Finite.TablesGf
import FastQr.Proofs.Lift

namespace FastQr.Proofs.GfTables
open FastQr Spec Finite Proofs

theorem C07_exp_table {i : Nat} (hi : i ≤ 255) : T.gfLog i = GF.alphaPow i := by
  have h := expOrbitOk_true
  simp only [expOrbitOk, Bool.and_eq_true, beq_iff_eq] at h
  induction i with
  | zero => simpa [GF.alphaPow] using h.1
  | succ k ih =>
    have hk := all_range h.2 k (by omega)
    simp only [beq_iff_eq] at hk
    rw [hk, ih (by omega)]; rfl

theorem C07_log_table {i : Nat} (hi : i < 255) : T.gfAntilog (T.gfLog i) = i := by
  simpa using all_range logInvOk_true i hi

theorem C07_exp_log {x : Nat} (h1 : 1 ≤ x) (hx : x < 256) :
    T.gfLog (T.gfAntilog x) = x ∧ T.gfAntilog x < 255 := by
  have h := all_range expLogOk_true (x - 1) (by omega)
  have hx' : x - 1 + 1 = x := by omega
  simpa [hx'] using h

/-- every generator the crate can return is the product of the first `ec` linear factors -/
theorem C07_generators (l : ECL) (v : Nat) (h : T.generator l v ≠ []) :
    (T.generator l v).map T.gfLog = GF.genPoly ((T.generator l v).length - 1) := by
  have hall := generatorsOk_true
  simp only [generatorsOk, List.all_eq_true, Bool.and_eq_true, beq_iff_eq] at hall
  have hmem : T.generator l v ∈ Gen.polys.toList := by
    unfold T.generator at h ⊢
    generalize (Gen.polyIndex.getD l.ix #[]).getD v 0 = k at h ⊢
    rw [Array.getD_eq_getD_getElem?] at h ⊢
    cases hg : Gen.polys[k]? with
    | none => rw [hg] at h; exact absurd rfl h
    | some p =>
      rw [Option.getD_some]
      exact Array.mem_toList_iff.mpr (Array.mem_of_getElem? hg)
  exact (hall _ hmem).2

end FastQr.Proofs.GfTables
