import FastQr.Proofs.SvgPrint
/-
C12, document level, model part 2: every attribute value of the rendering is printable (no quote, un-escapes to
itself or — for the href — to the image reference) provided the configured colour strings contain no
`"`, `<`, `&`; numbers of the image frame (Display / {:.2} of dyadics) only produce digits, `-`, `.`.
-/
namespace FastQr.Proofs.SvgSafe
open FastQr Model Model.Svg Spec.SvgParse Proofs.SvgDoc Proofs.SvgPath Proofs.SvgPrint

/-- characters that may appear un-escaped inside a double-quoted attribute value -/
def SafeC (c : Char) : Prop := c ≠ '"' ∧ c ≠ '<' ∧ c ≠ '&'
instance (c : Char) : Decidable (SafeC c) := by unfold SafeC; infer_instance
def Safe (l : List Char) : Prop := ∀ c ∈ l, SafeC c

theorem unescape_safe : ∀ (l : List Char), Safe l → unescape l = some l
  | [], _ => rfl
  | c :: r, h => by
    have hc := h c (by simp)
    have ih := unescape_safe r (fun x hx => h x (by simp [hx]))
    unfold unescape
    split <;> simp_all [SafeC]

theorem safe_val (l : List Char) (h : Safe l) : ValOk l l :=
  ⟨fun hm => (h _ hm).1 rfl, unescape_safe l h⟩

theorem Safe_append {a b : List Char} (ha : Safe a) (hb : Safe b) : Safe (a ++ b) := by
  intro c hc
  rcases List.mem_append.mp hc with h | h
  · exact ha c h
  · exact hb c h

theorem Safe_cons {c : Char} {l : List Char} (hc : SafeC c) (hl : Safe l) : Safe (c :: l) := by
  intro x hx
  rcases List.mem_cons.mp hx with rfl | h
  · exact hc
  · exact hl x h

theorem digit_safe {c : Char} (h : c.isDigit = true) : SafeC c := by
  refine ⟨?_, ?_, ?_⟩ <;> (intro e; subst e; revert h; decide)

theorem dig_safe (n : Nat) : Safe (dig n) := fun c hc => digit_safe (dig_isDigit n c hc)

theorem body_safe (shape y x : Nat) : Safe (body shape y x) := by
  unfold body
  split
  all_goals
    repeat' apply Safe_append
  all_goals first
    | exact dig_safe _
    | (intro c hc; revert c; decide)

theorem layerD_safe (b : Builder) (q : QR) (shape : Nat) : Safe (Props.C12.layerD b q shape).toList := by
  intro c hc
  simp only [Props.C12.layerD] at hc
  rw [String.toList_join, List.mem_flatMap] at hc
  obtain ⟨s, hs, hcs⟩ := hc
  rw [List.mem_map] at hs
  obtain ⟨yx, _, rfl⟩ := hs
  rw [shapeStr_toList] at hcs
  rcases List.mem_cons.mp hcs with rfl | h
  · decide
  · exact body_safe _ _ _ c h

/-! ### numbers of the image frame -/

theorem digitChar_safe {d : Nat} (h : d < 10) : SafeC (Dy.digitChar d) := by
  have : ∀ k, k < 10 → SafeC (Dy.digitChar k) := by decide
  exact this d h

theorem fracDigits_lt (frac e : Nat) (hf : frac < 2 ^ e) : ∀ x ∈ Dy.fracDigits frac e, x < 10 := by
  have hpos : 0 < 2 ^ e := Nat.pos_of_ne_zero (by simp)
  have key : ∀ (L : List Nat) (st : Nat × List Nat), st.1 < 2 ^ e → (∀ x ∈ st.2, x < 10) →
      ∀ x ∈ (L.foldl (fun (st : Nat × List Nat) _ =>
        let f := st.1 * 10
        (f % 2 ^ e, st.2 ++ [f / 2 ^ e])) st).2, x < 10 := by
    intro L
    induction L with
    | nil => intro st _ h2; exact h2
    | cons a L ih =>
      intro st h1 h2
      rw [List.foldl_cons]
      apply ih
      · exact Nat.mod_lt _ hpos
      · intro x hx
        simp only [List.mem_append, List.mem_singleton] at hx
        rcases hx with h | rfl
        · exact h2 x h
        · apply Nat.div_lt_of_lt_mul
          omega
  exact key (List.range e) (frac, []) hf (by simp)

theorem toString_nat_safe (n : Nat) : Safe (toString n).toList := by
  rw [toString_toList]; exact dig_safe n

theorem display_safe (x : Dy) : Safe x.display.toList := by
  simp only [Dy.display, String.toList_append]
  have hsign : ∀ (c : Prop) [Decidable c], Safe (if c then "-" else "").toList := by
    intro c _; split <;> (intro x hx; revert x; decide)
  refine Safe_append (Safe_append (hsign _) (toString_nat_safe _)) ?_
  split
  · intro c hc; simp at hc
  · rw [String.toList_append, String.toList_ofList]
    refine Safe_append (by intro c hc; revert c; decide) ?_
    intro c hc
    rw [String.toList_ofList, List.mem_map] at hc
    obtain ⟨d, hd, rfl⟩ := hc
    apply digitChar_safe
    have hmem : d ∈ Dy.fracDigits (x.norm.num.natAbs % 2 ^ x.norm.exp) x.norm.exp := by
      have h1 := List.mem_reverse.mp hd
      have h2 := (List.dropWhile_sublist _).subset h1
      exact List.mem_reverse.mp h2
    exact fracDigits_lt _ _ (Nat.mod_lt _ (Nat.pos_of_ne_zero (by simp))) d hmem

theorem fixed2_safe (x : Dy) : Safe x.fixed2.toList := by
  simp only [Dy.fixed2, String.toList_append, String.toList_ofList]
  have hsign : ∀ (c : Prop) [Decidable c], Safe (if c then "-" else "").toList := by
    intro c _; split <;> (intro x hx; revert x; decide)
  refine Safe_append (Safe_append (Safe_append (hsign _) (toString_nat_safe _)) (by intro c hc; revert c; decide)) ?_
  intro c hc
  simp only [List.mem_cons, List.mem_nil_iff, or_false] at hc
  rcases hc with rfl | rfl
  · exact digitChar_safe (by omega)
  · exact digitChar_safe (by omega)

/-! ### every element of the rendering is printable and reads back -/

structure ColoursSafe (b : Builder) : Prop where
  background : Safe b.background.toList
  dot : Safe b.dot.toList
  imageBg : Safe b.imageBg.toList
  layers : ∀ sc ∈ layers b, Safe (sc.2.getD b.dot).toList

theorem nameOk_lit (s : String) (h : s.toList ≠ [] ∧ s.toList.all isNameChar = true) : NameOk s.toList :=
  ⟨h.1, fun c hc => List.all_eq_true.mp h.2 c hc⟩

theorem same_ok (k v : String) (hk : k.toList ≠ [] ∧ k.toList.all isNameChar = true) (hv : Safe v.toList) :
    NameOk (same k v).key ∧ ValOk (same k v).raw (same k v).val :=
  ⟨nameOk_lit k hk, safe_val _ hv⟩

theorem sameL_ok (k : String) (v : List Char) (hk : k.toList ≠ [] ∧ k.toList.all isNameChar = true) (hv : Safe v) :
    NameOk (sameL k v).key ∧ ValOk (sameL k v).raw (sameL k v).val :=
  ⟨nameOk_lit k hk, safe_val _ hv⟩

theorem lit_safe (s : String) (h : s.toList.all (fun c => decide (SafeC c)) = true) : Safe s.toList :=
  fun c hc => of_decide_eq_true (List.all_eq_true.mp h c hc)

theorem rootTag_ok (b : Builder) (q : QR) : TagOk (rootTag b q) := by
  refine ⟨nameOk_lit "svg" (by decide), ?_, by simp only [rootTag, same, sameL, List.map_cons, List.map_nil]; decide⟩
  intro a ha
  simp only [rootTag, List.mem_cons, List.mem_nil_iff, or_false] at ha
  rcases ha with rfl | rfl
  · exact sameL_ok _ _ (by decide)
      (Safe_append (Safe_append (lit_safe "0 0 " (by decide)) (dig_safe _)) (Safe_cons (by decide) (dig_safe _)))
  · exact same_ok _ _ (by decide) (lit_safe _ (by decide))

theorem bgTag_ok (b : Builder) (q : QR) (hc : ColoursSafe b) : TagOk (bgTag b q) := by
  refine ⟨nameOk_lit "rect" (by decide), ?_, by simp only [bgTag, same, sameL, List.map_cons, List.map_nil]; decide⟩
  intro a ha
  simp only [bgTag, List.mem_cons, List.mem_nil_iff, or_false] at ha
  rcases ha with rfl | rfl | rfl
  · exact sameL_ok _ _ (by decide) (Safe_append (dig_safe _) (lit_safe "px" (by decide)))
  · exact sameL_ok _ _ (by decide) (Safe_append (dig_safe _) (lit_safe "px" (by decide)))
  · exact same_ok _ _ (by decide) hc.background

theorem layerTag_ok (b : Builder) (q : QR) (sc : Nat × Option String) (hcol : Safe (sc.2.getD b.dot).toList) :
    TagOk (layerTag b q sc) := by
  simp only [layerTag, layerTag']
  split
  · refine ⟨nameOk_lit "path" (by decide), ?_, by simp only [roundTag, same, sameL, List.map_cons, List.map_nil]; decide⟩
    intro a ha
    simp only [roundTag, List.mem_cons, List.mem_nil_iff, or_false] at ha
    rcases ha with rfl | rfl | rfl | rfl | rfl
    · exact sameL_ok _ _ (by decide) (layerD_safe b q sc.1)
    · exact same_ok _ _ (by decide) (lit_safe _ (by decide))
    · exact same_ok _ _ (by decide) (lit_safe _ (by decide))
    · exact same_ok _ _ (by decide) hcol
    · exact same_ok _ _ (by decide) hcol
  · refine ⟨nameOk_lit "path" (by decide), ?_, by simp only [plainTag, same, sameL, List.map_cons, List.map_nil]; decide⟩
    intro a ha
    simp only [plainTag, List.mem_cons, List.mem_nil_iff, or_false] at ha
    rcases ha with rfl | rfl
    · exact sameL_ok _ _ (by decide) (layerD_safe b q sc.1)
    · exact same_ok _ _ (by decide) hcol

theorem frameTag_ok (b : Builder) (f : Frame) (hc : ColoursSafe b) : TagOk (frameTag b f) := by
  refine ⟨nameOk_lit "rect" (by decide), ?_, ?_⟩
  · intro a ha
    simp only [frameTag, List.mem_append, List.mem_cons, List.mem_nil_iff, or_false] at ha
    rcases ha with (rfl | rfl | rfl | rfl | rfl) | ha
    · exact same_ok _ _ (by decide) (display_safe _)
    · exact same_ok _ _ (by decide) (display_safe _)
    · exact same_ok _ _ (by decide) (display_safe _)
    · exact same_ok _ _ (by decide) (display_safe _)
    · exact same_ok _ _ (by decide) hc.imageBg
    · unfold rxAttrs at ha
      split at ha
      · simp at ha
      · simp only [List.mem_cons, List.mem_nil_iff, or_false] at ha; subst ha
        exact same_ok _ _ (by decide) (lit_safe _ (by decide))
      · simp only [List.mem_cons, List.mem_nil_iff, or_false] at ha; subst ha
        exact same_ok _ _ (by decide) (lit_safe _ (by decide))
  · simp only [frameTag, rxAttrs]
    split <;> (simp only [same, List.map_cons, List.map_nil, List.map_append, List.cons_append, List.nil_append, List.append_nil]; decide)

theorem imageTag_ok (f : Frame) (img : String) : TagOk (imageTag f img) := by
  refine ⟨nameOk_lit "image" (by decide), ?_, by simp only [imageTag, same, List.map_cons, List.map_nil]; decide⟩
  intro a ha
  simp only [imageTag, List.mem_cons, List.mem_nil_iff, or_false] at ha
  rcases ha with rfl | rfl | rfl | rfl | rfl
  · exact same_ok _ _ (by decide) (fixed2_safe _)
  · exact same_ok _ _ (by decide) (fixed2_safe _)
  · exact same_ok _ _ (by decide) (fixed2_safe _)
  · exact same_ok _ _ (by decide) (fixed2_safe _)
  · exact ⟨nameOk_lit "href" (by decide), (Props.C12.C12_escape_safe img.toList).1, Props.C12.C12_unescape_escape img.toList⟩
end FastQr.Proofs.SvgSafe
