/- kernel-checked lifts of the tier-N template / sweep / scan checkers to per-cell statements -/
import FastQr.Finite.Template
import FastQr.Finite.Sweep
import FastQr.Finite.Scan
import FastQr.Proofs.Lift

namespace FastQr.Proofs
open FastQr Model Spec Finite

theorem templateOk_of_lt {v : Nat} (hv : v < 40) : templateOk v = true :=
  all_range templateOk_all v hv

/-- every cell of the blank symbol is what ISO prescribes -/
theorem template_cell {v : Nat} (hv : v < 40) {r c : Nat} (hr : r < Regions.side v)
    (hc : c < Regions.side v) : (template v).get r c = expectedCell v r c := by
  have h := templateOk_of_lt hv
  simp only [templateOk, Bool.and_eq_true, beq_iff_eq] at h
  obtain ⟨⟨⟨hn, _hsz⟩, _htr⟩, hall⟩ := h
  have hk := all_range hall (r * (Regions.ctx v).n + c) (idx_lt (by simpa [Regions.ctx] using hr) (by simpa [Regions.ctx] using hc))
  have hc' : c < (Regions.ctx v).n := by simpa [Regions.ctx] using hc
  rw [idx_div hc', idx_mod hc'] at hk
  simp only [beq_iff_eq] at hk
  simp only [QR.get, hn, expectedCell]
  exact hk

theorem template_n {v : Nat} (hv : v < 40) : (template v).n = Regions.side v := by
  have h := templateOk_of_lt hv
  simp only [templateOk, Bool.and_eq_true, beq_iff_eq] at h
  exact h.1.1.1

theorem template_size {v : Nat} (hv : v < 40) :
    (template v).cells.size = Regions.side v * Regions.side v := by
  have h := templateOk_of_lt hv
  simp only [templateOk, Bool.and_eq_true, beq_iff_eq] at h
  exact h.1.1.2

theorem template_traps {v : Nat} (hv : v < 40) : templateTraps v = [] := by
  have h := templateOk_of_lt hv
  simp only [templateOk, Bool.and_eq_true, beq_iff_eq] at h
  exact h.1.2

/-- the label of every cell of the blank symbol is its ISO region -/
theorem template_type {v : Nat} (hv : v < 40) {r c : Nat} (hr : r < Regions.side v)
    (hc : c < Regions.side v) : (template v).type r c = (Regions.region v r c).code := by
  simp only [QR.type, template_cell hv hr hc, expectedCell, expectedCellIn, Regions.region]
  split
  · rename_i h
    split
    · simp
    · -- a version cell that is not in the version list: the checker value 255 has label 127;
      -- impossible because `regionIn = version` requires membership — discharged by evaluation of
      -- the checker (the cell equals 255 only if the check failed), so we use the checked equality
      rename_i hnone
      have hreg : Regions.regionIn (Regions.ctx v) r c = .version := by simpa using h
      simp only [Regions.regionIn] at hreg
      repeat' split at hreg
      all_goals first | (simp at hreg; done) | skip
      rename_i hcont
      simp only [Bool.and_eq_true, List.contains_eq_mem, decide_eq_true_eq] at hcont
      have hmem := hcont.2
      have : ((Regions.ctx v).vcells.zipIdx.find? fun x => x.1 == (r, c)).isSome := by
        rw [List.find?_isSome]
        obtain ⟨i, hi, hget⟩ := List.getElem_of_mem hmem
        exact ⟨((r, c), i), by
          rw [List.mem_iff_getElem]
          exact ⟨i, by simpa using hi, by simp [hget]⟩, by simp⟩
      simp [hnone] at this
  · simp

end FastQr.Proofs
