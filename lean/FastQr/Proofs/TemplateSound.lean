/- kernel-checked lifts of the tier-N template / sweep / scan checkers to per-cell statements -/
import FastQr.Finite.Template
import FastQr.Finite.Scan
import FastQr.Proofs.Lift

namespace FastQr.Proofs
open FastQr Model Spec Finite

theorem templateOk_of_lt {v : Nat} (hv : v < 40) : templateOk v = true :=
  all_range templateOk_all v hv

theorem template_cellOk {v : Nat} (hv : v < 40) {r c : Nat} (hr : r < Regions.side v)
    (hc : c < Regions.side v) :
    templateCellOk (Regions.ctx v) r c ((template v).get r c) = true := by
  have h := templateOk_of_lt hv
  simp only [templateOk, Bool.and_eq_true, beq_iff_eq] at h
  obtain ⟨⟨⟨hn, _hsz⟩, _htr⟩, hall⟩ := h
  have hc' : c < (Regions.ctx v).n := by simpa [Regions.ctx] using hc
  have hk := all_range hall (r * (Regions.ctx v).n + c) (idx_lt (by simpa [Regions.ctx] using hr) hc')
  rw [idx_div hc', idx_mod hc'] at hk
  simp only [QR.get, hn]
  exact hk

/-- every cell of the blank symbol outside the version-information areas is what ISO prescribes -/
theorem template_cell {v : Nat} (hv : v < 40) {r c : Nat} (hr : r < Regions.side v)
    (hc : c < Regions.side v) (hnv : Regions.region v r c ≠ .version) :
    (template v).get r c = expectedCell v r c := by
  have h := template_cellOk hv hr hc
  have : (Regions.regionIn (Regions.ctx v) r c == Region.version) = false := by
    simpa [Regions.region] using hnv
  simp only [templateCellOk, this, Bool.false_eq_true, if_false, beq_iff_eq] at h
  exact h

theorem template_n {v : Nat} (hv : v < 40) : (template v).n = Regions.side v := by
  have h := templateOk_of_lt hv
  simp only [templateOk, Bool.and_eq_true, beq_iff_eq] at h
  exact h.1.1.1

theorem template_size {v : Nat} (hv : v < 40) :
    (template v).cells.size = Regions.side v * Regions.side v := by
  have h := templateOk_of_lt hv
  simp only [templateOk, Bool.and_eq_true, beq_iff_eq] at h
  exact h.1.1.2

theorem template_traps {v : Nat} (hv : v < 40) : templateTraps v = [] := by
  have h := templateOk_of_lt hv
  simp only [templateOk, Bool.and_eq_true, beq_iff_eq] at h
  exact h.1.2

/-- the label of every cell of the blank symbol is its ISO region -/
theorem template_type {v : Nat} (hv : v < 40) {r c : Nat} (hr : r < Regions.side v)
    (hc : c < Regions.side v) : (template v).type r c = (Regions.region v r c).code := by
  have h := template_cellOk hv hr hc
  simp only [templateCellOk] at h
  by_cases hreg : Regions.regionIn (Regions.ctx v) r c = .version
  · simp only [hreg, beq_self_eq_true, if_true, beq_iff_eq] at h
    simp only [QR.type, Regions.region, hreg]
    exact h
  · have : (Regions.regionIn (Regions.ctx v) r c == Region.version) = false := by simpa using hreg
    simp only [this, Bool.false_eq_true, if_false, beq_iff_eq] at h
    simp only [QR.type, h, expectedCellIn, mtype_mk, Regions.region]

end FastQr.Proofs
