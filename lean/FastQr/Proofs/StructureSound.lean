/-
`polynomials::structure` never traps: every slice, every division and every store is in range, for
every (version, level) and every codeword buffer at least `data_codewords` long.
-/
import FastQr.Finite.Interleave
import FastQr.Props.C02
import FastQr.Proofs.ChkLawful

namespace FastQr.Proofs.StructureSound
open FastQr Model Spec Finite Proofs

theorem interleaveOk_of {v : Nat} (hv : v < 40) (l : ECL) : interleaveOk l v = true :=
  all_range (all_ecl interleaveOk_all l) v hv

theorem zipIdx_foldlM_traps {α : Type} (f : Array Nat → α × Nat → Chk (Array Nat)) (xs : List (α × Nat)) (b : Array Nat)
    (h : ∀ b x, x ∈ xs → (f b x).traps = []) : (xs.foldlM f b).traps = [] :=
  Chk.foldlM_traps_nil f xs b h

/-- one block of the EC loops does not trap -/
theorem ecBlock_traps (data : Array Nat) (gen : List Nat) (startErr total : Nat) (out : Array Nat) (off sz col : Nat)
    (hslice : off + sz ≤ data.size) (hgen : 1 ≤ gen.length) (hfit : sz + gen.length ≤ 256)
    (hidx : ∀ j, j < gen.length - 1 → startErr + j * total + col < 5430) :
    (ecBlock data gen startErr total out off sz col).traps = [] := by
  have hs : sliceOf data off sz = ⟨(List.range sz).map fun k => data.getD (off + k) 0, []⟩ := by
    simp [sliceOf, hslice]
  have hdiv : divisionTraps ((List.range sz).map fun k => data.getD (off + k) 0) gen = [] := by
    have h1 : ((List.range sz).map fun k => data.getD (off + k) 0).length + gen.length ≤ 256 := by simpa using hfit
    have h2 : (List.range sz).length + gen.length ≤ 256 := by simpa using hfit
    simp only [divisionTraps, List.length_map]
    rw [if_pos h2, if_pos hgen]; rfl
  simp only [ecBlock, hs, bind, Chk.bind', hdiv, List.nil_append]
  apply Chk.foldlM_traps_nil
  intro b x hx
  have hj : x.2 < gen.length - 1 := by
    have := List.mem_zipIdx hx
    have hl : (ecOf ((List.range sz).map fun k => data.getD (off + k) 0) gen).length = gen.length - 1 := by
      simp [ecOf]
    omega
  simp [hidx x.2 hj, pure, Chk.pure']

/-- **`structure` never traps** -/
theorem structure_traps {v : Nat} (hv : v < 40) (l : ECL) (data : Array Nat) (hd : T.dataCodewords l v ≤ data.size) :
    (structureBuf data l v).traps = [] := by
  have hok := interleaveOk_of hv l
  simp only [interleaveOk, Bool.and_eq_true, beq_iff_eq, decide_eq_true_eq, and_assoc] at hok
  obtain ⟨hlen, _holen, hnb, hecl, hzip, _hec, htot, h5430, hoff1, hoff2, hs1, hs2⟩ := hok
  have hlay := Props.C02.C02_layout hv l
  have hb := Props.C02.C02_bounds hv l
  have hgen1 : 1 ≤ (T.generator l v).length := by rw [hlay.2.2.2.2.1]; omega
  have hdc := hlay.2.2.2.2.2.1
  -- every EC store index is below the total codeword count
  have hidx : ∀ j col, j < (T.generator l v).length - 1 → col < (T.groups l v).1 + (T.groups l v).2.2.1 →
      T.dataCodewords l v + j * ((T.groups l v).1 + (T.groups l v).2.2.1) + col < 5430 := by
    intro j col hj hcol
    have h1 : j * ((T.groups l v).1 + (T.groups l v).2.2.1) + ((T.groups l v).1 + (T.groups l v).2.2.1)
        ≤ ((T.generator l v).length - 1) * ((T.groups l v).1 + (T.groups l v).2.2.1) := by
      have := Nat.mul_le_mul_right ((T.groups l v).1 + (T.groups l v).2.2.1) (Nat.succ_le_of_lt hj)
      simpa [Nat.succ_mul] using this
    omega
  simp only [structureBuf, bind, Chk.bind', hgen1, decide_true, Chk.guard, if_true, List.nil_append, List.append_eq_nil_iff]
  refine ⟨?_, ?_, ?_⟩
  · apply Chk.foldlM_traps_nil
    intro out i hi
    have hi' : i < (T.groups l v).1 := List.mem_range.mp hi
    apply ecBlock_traps _ _ _ _ _ _ _ _ ?_ hgen1 hb.1 (fun j hj => hidx j i hj (by omega))
    have : (i + 1) * (T.groups l v).2.1 ≤ (T.groups l v).1 * (T.groups l v).2.1 := Nat.mul_le_mul_right _ hi'
    rw [Nat.succ_mul] at this
    have hle : (T.groups l v).1 * (T.groups l v).2.1 ≤ T.dataCodewords l v := by rw [hdc]; omega
    omega
  · apply Chk.foldlM_traps_nil
    intro out i hi
    have hi' : i < (T.groups l v).2.2.1 := List.mem_range.mp hi
    apply ecBlock_traps _ _ _ _ _ _ _ _ ?_ hgen1 hb.2.1 (fun j hj => hidx j (i + (T.groups l v).1) hj (by omega))
    have : (i + 1) * (T.groups l v).2.2.2 ≤ (T.groups l v).2.2.1 * (T.groups l v).2.2.2 := Nat.mul_le_mul_right _ hi'
    rw [Nat.succ_mul] at this
    have hcomm : (T.groups l v).2.1 * (T.groups l v).1 = (T.groups l v).1 * (T.groups l v).2.1 := Nat.mul_comm _ _
    omega
  · apply Chk.foldlM_traps_nil
    intro out ip hip
    have hk := List.mem_zipIdx hip
    simp only [Nat.zero_add] at hk
    have hmem : ip.1 ∈ dataIdxs (T.groups l v).1 (T.groups l v).2.1 (T.groups l v).2.2.1 (T.groups l v).2.2.2 := by
      rw [List.mem_iff_getElem]
      exact ⟨ip.2, hk.2.1, hk.2.2.symm⟩
    -- the source index is below data_codewords (checker), the push index below the list length
    have hsrc : ip.1 < T.dataCodewords l v := by
      simp only [List.all_eq_true, Bool.and_eq_true, beq_iff_eq, decide_eq_true_eq] at hzip
      obtain ⟨k, hk1, hk2⟩ := List.getElem_of_mem hmem
      have hk3 : k < (Decode.dataOrder (Decode.blockSizes v l)).length := by omega
      have := hzip (ip.1, (Decode.dataOrder (Decode.blockSizes v l))[k]) (by
        rw [List.mem_iff_getElem]
        refine ⟨k, by simp; omega, ?_⟩
        simp [hk2])
      exact this.2
    have hpush : ip.2 < 5430 := by omega
    have : ip.1 < data.size ∧ ip.2 < 5430 := ⟨by omega, hpush⟩
    simp [this, pure, Chk.pure']

end FastQr.Proofs.StructureSound
