/- helper lemmas on `List.find?` used by the capacity proofs -/
namespace FastQr.Proofs

/-- If `r ⊆ q ⊆ p` pointwise and the first `p`-element is the first `r`-element, it is also the
first `q`-element. -/
theorem find?_sandwich {α : Type} (p q r : α → Bool) (xs : List α)
    (hrq : ∀ x, r x = true → q x = true) (hqp : ∀ x, q x = true → p x = true)
    (h : xs.find? p = xs.find? r) : xs.find? q = xs.find? p := by
  induction xs with
  | nil => rfl
  | cons x xs ih =>
    simp only [List.find?_cons] at h ⊢
    cases hr : r x with
    | true =>
      have hq := hrq x hr
      have hp := hqp x hq
      simp [hq, hp]
    | false =>
      cases hp : p x with
      | true =>
        simp only [hr, hp] at h
        have := List.find?_some h.symm
        simp [hr] at this
      | false =>
        have hq : q x = false := by
          cases hq : q x with
          | false => rfl
          | true => have := hqp x hq; simp [hp] at this
        simp only [hr, hp] at h
        simp [hq, ih h]

end FastQr.Proofs
