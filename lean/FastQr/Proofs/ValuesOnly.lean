/-
The renderers read module VALUES only. A matrix assembled by hand — `QRCode::default(size)` filled through
`qr[y][x] = dark.into()`, which types every module `Empty` and carries no version / level / mask — renders exactly like
the built symbol it copies: SVG (hence raster input) and terminal text are functions of (size, values).
-/
import FastQr.Model.Svg
import FastQr.Model.Term

namespace FastQr.Proofs.ValuesOnly
open FastQr Model

/-- two matrices of one size with the same module values inside the square -/
def SameValues (q q' : QR) : Prop := q.n = q'.n ∧ ∀ r c, r < q.n → c < q.n → q.value r c = q'.value r c

theorem flatMap_congr_mem {α β} (l : List α) (f g : α → List β) (h : ∀ x ∈ l, f x = g x) : l.flatMap f = l.flatMap g := by
  induction l with
  | nil => rfl
  | cons a r ih => simp only [List.flatMap_cons, h a (by simp), ih (fun x hx => h x (by simp [hx]))]

theorem filterMap_congr_mem {α β} (l : List α) (f g : α → Option β) (h : ∀ x ∈ l, f x = g x) : l.filterMap f = l.filterMap g := by
  induction l with
  | nil => rfl
  | cons a r ih => simp only [List.filterMap_cons, h a (by simp), ih (fun x hx => h x (by simp [hx]))]

theorem darkCells_congr (q q' : QR) (h : SameValues q q') : Svg.darkCells q = Svg.darkCells q' := by
  obtain ⟨hn, hv⟩ := h
  unfold Svg.darkCells
  rw [← hn]
  apply flatMap_congr_mem
  intro y hy
  apply filterMap_congr_mem
  intro x hx
  rw [hv y x (List.mem_range.mp hy) (List.mem_range.mp hx)]

theorem svg_values_only (b : Svg.Builder) (q q' : QR) (h : SameValues q q') : Svg.toStr b q = Svg.toStr b q' := by
  unfold Svg.toStr Svg.pathStr
  rw [darkCells_congr q q' h, h.1]

theorem printLine_congr (l1 l2 l1' l2' : Nat → Bool) (n : Nat) (h1 : ∀ i < n, l1 i = l1' i) (h2 : ∀ i < n, l2 i = l2' i) :
    Term.printLine l1 l2 n = Term.printLine l1' l2' n := by
  unfold Term.printLine
  apply List.map_congr_left
  intro i hi
  rw [h1 i (List.mem_range.mp hi), h2 i (List.mem_range.mp hi)]

theorem term_values_only (q q' : QR) (h : SameValues q q') (hn : 1 ≤ q.n) : Term.toStr q = Term.toStr q' := by
  obtain ⟨hn', hv⟩ := h
  unfold Term.toStr Term.lines
  rw [← hn']
  have e1 : ((List.range ((q.n - 1 + 1) / 2)).map fun k =>
      Term.BLOCK :: (Term.printLine (q.value (2 * k)) (q.value (2 * k + 1)) q.n ++ [Term.BLOCK])) =
      ((List.range ((q.n - 1 + 1) / 2)).map fun k =>
      Term.BLOCK :: (Term.printLine (q'.value (2 * k)) (q'.value (2 * k + 1)) q.n ++ [Term.BLOCK])) := by
    apply List.map_congr_left
    intro k hk
    have hk' := List.mem_range.mp hk
    rw [printLine_congr (q.value (2 * k)) (q.value (2 * k + 1)) (q'.value (2 * k)) (q'.value (2 * k + 1)) q.n
      (fun i hi => hv _ _ (by omega) hi) (fun i hi => hv _ _ (by omega) hi)]
  have e2 : Term.printLine (q.value (q.n - 1)) (fun _ => false) q.n = Term.printLine (q'.value (q.n - 1)) (fun _ => false) q.n :=
    printLine_congr _ _ _ _ q.n (fun i hi => hv _ _ (by omega) hi) (fun _ _ => rfl)
  rw [e1, e2]

/-- the hand-assembled copy: `QRCode::default(q.size)`, then `copy[y][x] = q[y][x].value().into()` (`Module::empty(value)`) -/
def handCopy (q : QR) : QR :=
  { n := q.n, cells := Array.ofFn (n := q.n * q.n) fun k => mk (q.value (k.val / q.n) (k.val % q.n)) tEmpty }

theorem handCopy_same (q : QR) : SameValues q (handCopy q) := by
  refine ⟨rfl, ?_⟩
  intro r c hr hc
  have hlt : r * q.n + c < q.n * q.n := by
    calc r * q.n + c < r * q.n + q.n := by omega
      _ = (r + 1) * q.n := by rw [Nat.add_mul, Nat.one_mul]
      _ ≤ q.n * q.n := Nat.mul_le_mul_right _ hr
  have hget : (handCopy q).get r c = mk (q.value r c) tEmpty := by
    have hn0 : 0 < q.n := by omega
    simp only [handCopy, QR.get, Array.getD, Array.size_ofFn, hlt, dif_pos, Array.getInternal_eq_getElem, Array.getElem_ofFn]
    rw [Nat.mul_comm r q.n, Nat.mul_add_div hn0, Nat.mul_add_mod, Nat.div_eq_of_lt hc, Nat.mod_eq_of_lt hc, Nat.add_zero]
  show q.value r c = mval ((handCopy q).get r c)
  rw [hget]
  cases q.value r c <;> rfl

end FastQr.Proofs.ValuesOnly
