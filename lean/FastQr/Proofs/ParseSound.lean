/-
C01 stage (f): the strict segment parser inverts the ISO 7.4 bit-stream encoder — pure specification
level (`Spec.Bitstream.parse ∘ Spec.Bitstream.codewords`), for every mode, version, level and input
of the mode's alphabet that fits.
-/
import FastQr.Spec.Bitstream
namespace FastQr.Proofs.ParseSound
open FastQr Spec Spec.Bitstream

theorem ofBits_foldl (l : List Bool) (a : Nat) :
    l.foldl (fun a b => 2 * a + (if b then 1 else 0)) a = a * 2 ^ l.length + ofBits l := by
  induction l generalizing a with
  | nil => simp [ofBits]
  | cons b bs ih =>
    simp only [List.foldl_cons, List.length_cons, ofBits]
    rw [ih, ih (2 * 0 + _)]
    simp only [Nat.pow_succ]
    generalize 2 ^ bs.length = P
    cases b
    · simp only [Bool.false_eq_true, if_false, Nat.add_zero, Nat.mul_zero, Nat.zero_mul, Nat.zero_add]
      rw [Nat.mul_comm 2 a, Nat.mul_assoc, Nat.mul_comm 2 P]
    · simp only [if_true, Nat.mul_zero, Nat.zero_add, Nat.one_mul]
      rw [Nat.add_mul, Nat.mul_comm 2 a, Nat.mul_assoc, Nat.mul_comm 2 P, Nat.one_mul]
      omega

theorem ofBits_cons (b : Bool) (l : List Bool) :
    ofBits (b :: l) = (if b then 1 else 0) * 2 ^ l.length + ofBits l := by
  have := ofBits_foldl l (2 * 0 + (if b then 1 else 0))
  simpa [ofBits] using this

theorem ofBits_append (l1 l2 : List Bool) : ofBits (l1 ++ l2) = ofBits l1 * 2 ^ l2.length + ofBits l2 := by
  simp only [ofBits, List.foldl_append]
  exact ofBits_foldl l2 _

theorem toBits_succ (k x : Nat) : toBits (k + 1) x = ((x >>> k) % 2 == 1) :: toBits k x := by
  simp only [toBits, List.range_succ_eq_map, List.map_cons, List.map_map]
  congr 1
  apply List.map_congr_left
  intro i hi
  simp only [Function.comp]
  have : k + 1 - 1 - (i + 1) = k - 1 - i := by omega
  rw [this]

theorem toBits_length (k x : Nat) : (toBits k x).length = k := by simp [toBits]

theorem ofBits_toBits (k x : Nat) : ofBits (toBits k x) = x % 2 ^ k := by
  induction k with
  | zero => simp [toBits, ofBits, Nat.mod_one]
  | succ k ih =>
    rw [toBits_succ, ofBits_cons, ih, toBits_length, Nat.shiftRight_eq_div_pow]
    rw [Nat.mod_pow_succ]
    by_cases h : x / 2 ^ k % 2 = 1
    · simp [h]; omega
    · have h0 : x / 2 ^ k % 2 = 0 := by omega
      simp [h0]

theorem ofBits_toBits_lt {k x : Nat} (h : x < 2 ^ k) : ofBits (toBits k x) = x := by
  rw [ofBits_toBits, Nat.mod_eq_of_lt h]

theorem take_left (l1 l2 : List Bool) : (l1 ++ l2).take l1.length = l1 := List.take_left
theorem drop_left (l1 l2 : List Bool) : (l1 ++ l2).drop l1.length = l2 := List.drop_left

/-- reading back a `k`-bit field that was written in front of `rest` -/
theorem field_back (k x : Nat) (rest : List Bool) (hx : x < 2 ^ k) :
    ofBits ((toBits k x ++ rest).take k) = x ∧ (toBits k x ++ rest).drop k = rest ∧ k ≤ (toBits k x ++ rest).length := by
  have hl := toBits_length k x
  refine ⟨?_, ?_, by simp [hl]⟩
  · have := take_left (toBits k x) rest
    rw [hl] at this
    rw [this, ofBits_toBits_lt hx]
  · have := drop_left (toBits k x) rest
    rw [hl] at this
    exact this

def IsDigits (inp : List Nat) : Prop := ∀ x ∈ inp, 48 ≤ x ∧ x ≤ 57

theorem parseDigits_ok : ∀ (inp : List Nat), IsDigits inp → ∀ rest : List Bool,
    parseDigits inp.length (digitsBits inp ++ rest) = some (inp, rest)
  | [], _, rest => by simp [parseDigits, digitsBits]
  | [a], hd, rest => by
    have ha := hd a (by simp)
    obtain ⟨h1, h2, h3⟩ := field_back 4 (a - 48) rest (by omega)
    simp only [List.length_cons, List.length_nil, parseDigits, digitsBits]
    have hlt : ¬ (toBits 4 (a - 48) ++ rest).length < 4 := by omega
    simp only [hlt, if_false, h1, h2]
    have : ¬ a - 48 ≥ 10 := by omega
    simp only [this, if_false]
    congr 3; omega
  | [a, b], hd, rest => by
    have ha := hd a (by simp)
    have hb := hd b (by simp)
    obtain ⟨h1, h2, h3⟩ := field_back 7 ((a - 48) * 10 + (b - 48)) rest (by omega)
    simp only [List.length_cons, List.length_nil, parseDigits, digitsBits]
    have hlt : ¬ (toBits 7 ((a - 48) * 10 + (b - 48)) ++ rest).length < 7 := by omega
    simp only [hlt, if_false, h1, h2]
    have : ¬ (a - 48) * 10 + (b - 48) ≥ 100 := by omega
    simp only [this, if_false]
    congr 3
    · omega
    · congr 1; omega
  | a :: b :: c :: tl, hd, rest => by
    have ha := hd a (by simp)
    have hb := hd b (by simp)
    have hc := hd c (by simp)
    have ih := parseDigits_ok tl (fun x hx => hd x (by simp [hx])) rest
    obtain ⟨h1, h2, h3⟩ := field_back 10 ((a - 48) * 100 + (b - 48) * 10 + (c - 48)) (digitsBits tl ++ rest) (by omega)
    simp only [List.length_cons, digitsBits, List.append_assoc]
    rw [parseDigits]
    have hlt : ¬ (toBits 10 ((a - 48) * 100 + (b - 48) * 10 + (c - 48)) ++ (digitsBits tl ++ rest)).length < 10 := by omega
    simp only [hlt, if_false, h1, h2]
    have : ¬ (a - 48) * 100 + (b - 48) * 10 + (c - 48) ≥ 1000 := by omega
    simp only [this, if_false, ih]
    congr 3
    · omega
    · congr 1
      · omega
      · congr 1; omega

def alnumTableOk : Bool :=
  alnumChars.all fun a => alnumChars.getD ((alnumValue a).getD 0) 0 == a && decide ((alnumValue a).getD 0 < 45)
theorem alnumTableOk_true : alnumTableOk = true := by decide +kernel

theorem alnum_back {a : Nat} (ha : isAlnum a = true) :
    alnumChar ((alnumValue a).getD 0) = a ∧ (alnumValue a).getD 0 < 45 := by
  have h := alnumTableOk_true
  simp only [alnumTableOk, List.all_eq_true, Bool.and_eq_true, beq_iff_eq, decide_eq_true_eq] at h
  have hm : a ∈ alnumChars := by simpa [isAlnum] using ha
  exact h a hm

def IsAlnums (inp : List Nat) : Prop := ∀ x ∈ inp, isAlnum x = true

theorem parseAlnum_ok : ∀ (inp : List Nat), IsAlnums inp → ∀ rest : List Bool,
    parseAlnum inp.length (alnumBits inp ++ rest) = some (inp, rest)
  | [], _, rest => by simp [parseAlnum, alnumBits]
  | [a], hd, rest => by
    obtain ⟨ha1, ha2⟩ := alnum_back (hd a (by simp))
    obtain ⟨h1, h2, h3⟩ := field_back 6 ((alnumValue a).getD 0) rest (by omega)
    simp only [List.length_cons, List.length_nil, parseAlnum, alnumBits]
    have hlt : ¬ (toBits 6 ((alnumValue a).getD 0) ++ rest).length < 6 := by omega
    simp only [hlt, if_false, h1, h2]
    have : ¬ (alnumValue a).getD 0 ≥ 45 := by omega
    simp only [this, if_false, ha1]
  | a :: b :: tl, hd, rest => by
    obtain ⟨ha1, ha2⟩ := alnum_back (hd a (by simp))
    obtain ⟨hb1, hb2⟩ := alnum_back (hd b (by simp))
    have ih := parseAlnum_ok tl (fun x hx => hd x (by simp [hx])) rest
    obtain ⟨h1, h2, h3⟩ := field_back 11 ((alnumValue a).getD 0 * 45 + (alnumValue b).getD 0) (alnumBits tl ++ rest) (by omega)
    simp only [List.length_cons, alnumBits, List.append_assoc]
    rw [parseAlnum]
    have hlt : ¬ (toBits 11 ((alnumValue a).getD 0 * 45 + (alnumValue b).getD 0) ++ (alnumBits tl ++ rest)).length < 11 := by omega
    simp only [hlt, if_false, h1, h2]
    have : ¬ (alnumValue a).getD 0 * 45 + (alnumValue b).getD 0 ≥ 45 * 45 := by omega
    simp only [this, if_false, ih]
    have e1 : ((alnumValue a).getD 0 * 45 + (alnumValue b).getD 0) / 45 = (alnumValue a).getD 0 := by omega
    have e2 : ((alnumValue a).getD 0 * 45 + (alnumValue b).getD 0) % 45 = (alnumValue b).getD 0 := by omega
    rw [e1, e2, ha1, hb1]

theorem parseBytes_ok : ∀ (inp : List Nat), (∀ x ∈ inp, x < 256) → ∀ rest : List Bool,
    parseBytes inp.length (inp.flatMap (toBits 8) ++ rest) = some (inp, rest)
  | [], _, rest => by simp [parseBytes]
  | a :: tl, hd, rest => by
    have ih := parseBytes_ok tl (fun x hx => hd x (by simp [hx])) rest
    obtain ⟨h1, h2, h3⟩ := field_back 8 a (tl.flatMap (toBits 8) ++ rest) (by have := hd a (by simp); omega)
    simp only [List.length_cons, List.flatMap_cons, List.append_assoc, parseBytes]
    have hlt : ¬ (toBits 8 a ++ (tl.flatMap (toBits 8) ++ rest)).length < 8 := by omega
    simp only [hlt, if_false, h1, h2, ih]

theorem toBits8_list (x : Nat) : ∃ a b c d e f g h, toBits 8 x = [a, b, c, d, e, f, g, h] := by
  have : toBits 8 x = [(x >>> 7) % 2 == 1, (x >>> 6) % 2 == 1, (x >>> 5) % 2 == 1, (x >>> 4) % 2 == 1,
      (x >>> 3) % 2 == 1, (x >>> 2) % 2 == 1, (x >>> 1) % 2 == 1, (x >>> 0) % 2 == 1] := by
    simp only [toBits_succ]
    rfl
  exact ⟨_, _, _, _, _, _, _, _, this⟩

theorem packBytes_flatMap : ∀ (L : List Nat), (∀ x ∈ L, x < 256) → packBytes (L.flatMap (toBits 8)) = L
  | [], _ => rfl
  | x :: xs, h => by
    have ih := packBytes_flatMap xs (fun y hy => h y (by simp [hy]))
    obtain ⟨a, b, c, d, e, f, g, hh, hx⟩ := toBits8_list x
    have hx2 := ofBits_toBits_lt (k := 8) (x := x) (by have := h x (by simp); omega)
    rw [hx] at hx2
    simp only [List.flatMap_cons, hx, List.cons_append, List.nil_append, packBytes, ih, hx2]

theorem bools8 : ∀ a b c d e f g h : Bool, toBits 8 (ofBits [a, b, c, d, e, f, g, h]) = [a, b, c, d, e, f, g, h] := by
  decide

theorem flatMap_packBytes : ∀ (S : List Bool), S.length % 8 = 0 → (packBytes S).flatMap (toBits 8) = S
  | [], _ => rfl
  | a :: b :: c :: d :: e :: f :: g :: h :: rest, hl => by
    have ih := flatMap_packBytes rest (by simp at hl; omega)
    simp only [packBytes, List.flatMap_cons, ih, bools8]
    rfl
  | [_], hl => by simp at hl
  | [_, _], hl => by simp at hl
  | [_, _, _], hl => by simp at hl
  | [_, _, _, _], hl => by simp at hl
  | [_, _, _, _, _], hl => by simp at hl
  | [_, _, _, _, _, _], hl => by simp at hl
  | [_, _, _, _, _, _, _], hl => by simp at hl

theorem padsOk_range (n : Nat) : padsOk ((List.range n).map fun i => if i % 2 == 0 then 0xEC else 0x11) = true := by
  simp only [padsOk, List.all_eq_true]
  intro ⟨b, i⟩ hm
  rw [List.mem_zipIdx_iff_getElem?] at hm
  simp only [List.getElem?_map, Option.map_eq_some_iff] at hm
  obtain ⟨j, hj, hb⟩ := hm
  rw [List.getElem?_range] at hj
  · simp at hj; subst hj; simp [← hb]
  · apply Decidable.byContradiction; intro hn
    rw [List.getElem?_eq_none (by simpa using hn)] at hj; simp at hj
end FastQr.Proofs.ParseSound
