/- side bounds, and: every mask candidate keeps a light module (so PERCENT_SCORE is never indexed at 100) -/
import FastQr.Proofs.PlaceInv

namespace FastQr.Proofs.Total
open FastQr Model Spec Finite Proofs

theorem side_bounds {v : Nat} (hv : v < 40) : 21 ≤ Regions.side v ∧ Regions.side v ≤ 177 := by
  simp only [Regions.side]; omega

/-- every mask candidate still has the light module (1, 1) of the top-left finder pattern -/
theorem candidate_light {v m : Nat} (hv : v < 40) (hm : m < 8) (bytes : Array Nat) :
    ∃ b ∈ (applyMask m (placeData (template v) bytes).1).cells.toList, mval b = false := by
  obtain ⟨hpn, hpwf, hpp⟩ := placeData_template hv bytes
  have hs := side_bounds hv
  have h1 : 1 < Regions.side v := by omega
  have hstd : Regions.stdValue v 1 1 = some false := by
    have : ∀ v, v < 40 → Regions.stdValue v 1 1 = some false := by decide +kernel
    exact this v hv
  have hnd : Regions.region v 1 1 ≠ .data := by
    intro h; simp only [Regions.stdValue, Regions.stdValueIn, Regions.region] at hstd h; rw [h] at hstd; simp at hstd
  obtain ⟨hpt, hpv⟩ := hpp 1 1 h1 h1
  have hmask := applyMask_get hv hm _ hpwf (by rw [hpn]; rfl) (r := 1) (c := 1) (by rw [hpn]; exact h1) (by rw [hpn]; exact h1)
  have htt := template_type hv h1 h1
  have hnotdata : ¬ mtype ((placeData (template v) bytes).1.get 1 1) = tData := by
    rw [hpv hnd]
    simp only [QR.type] at htt
    rw [htt]
    intro h
    apply hnd
    cases hreg : Regions.region v 1 1 <;> simp_all [Region.code, tData]
  have hval : mval ((applyMask m (placeData (template v) bytes).1).get 1 1) = false := by
    rw [hmask, if_neg (fun h => hnotdata h.1), hpv hnd]
    have hnv : Regions.region v 1 1 ≠ .version := by
      intro h; simp only [Regions.stdValue, Regions.stdValueIn, Regions.region] at hstd h; rw [h] at hstd; simp at hstd
    rw [template_cell hv h1 h1 hnv]
    simp only [expectedCell, expectedCellIn, mval_mk]
    simp only [Regions.stdValue] at hstd
    simp [hstd]
  have hwf : WF (applyMask m (placeData (template v) bytes).1) := applyMask_WF m _ hpwf
  have hnn : (applyMask m (placeData (template v) bytes).1).n = Regions.side v := by rw [applyMask_n, hpn]
  have hidx : 1 * (applyMask m (placeData (template v) bytes).1).n + 1 < (applyMask m (placeData (template v) bytes).1).cells.size := by
    rw [hwf, hnn]
    have : 1 * Regions.side v + 1 < Regions.side v * Regions.side v := by
      have := Nat.mul_le_mul_right (Regions.side v) (by omega : 2 ≤ Regions.side v)
      omega
    exact this
  refine ⟨(applyMask m (placeData (template v) bytes).1).cells[1 * (applyMask m (placeData (template v) bytes).1).n + 1], ?_, ?_⟩
  · exact Array.mem_toList_iff.mpr (Array.getElem_mem hidx)
  · simp only [QR.get, Array.getD_eq_getD_getElem?, Array.getElem?_eq_getElem hidx, Option.getD_some] at hval
    exact hval

end FastQr.Proofs.Total
