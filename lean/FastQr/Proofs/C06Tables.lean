/- tier-K lifts used by the bit-buffer proofs (KEEP_LAST, pad bytes, count widths) -/
import FastQr.Props.C05Tables
import FastQr.Finite.TablesKeepLast
import FastQr.Finite.TablesPad
import FastQr.Proofs.Lift
import FastQr.Props.C05

namespace FastQr.Props.C06
open FastQr Model Spec Finite Proofs

theorem C06_keep_last {i : Nat} (hi : i < 65) : T.keepLast i = 2 ^ i - 1 := by
  simpa using all_range keepLastOk_true i hi

theorem C06_pad_bytes : T.padBytes = (0xEC, 0x11) := by simpa [padOk] using padOk_true

theorem C06_count_width {v : Nat} (hv : v < 40) (m : Mode) : T.cciBits m v = Spec.cciBits m v :=
  (C05.C05_tables hv .L m).2.2

/-- width of every count field is at most 16, so every `push_bits` call site uses a width ≤ 16 -/
theorem C06_widths {v : Nat} (hv : v < 40) (m : Mode) : T.cciBits m v ≤ 16 := by
  rw [C06_count_width hv m]
  cases m <;> simp only [Spec.cciBits] <;> split <;> (try split) <;> omega

end FastQr.Props.C06
