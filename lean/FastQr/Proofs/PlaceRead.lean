/-
C01 stage (c): reading the placed bits back. After `place_on_matrix_data` on the blank symbol the k-th
cell of the ISO read-out order holds bit k of the codeword sequence, for every codeword sequence
(each encoding-region cell is visited exactly once: tier N `scanOk` + a counting lemma).
-/
import FastQr.Proofs.PlaceInv
namespace FastQr.Proofs.PlaceRead
open FastQr Model Spec Finite Proofs

theorem placeStep_other (bytes : Array Nat) (q : QR) (idx : Nat) (hq : WF q) (yx : Nat × Nat)
    (hy : yx.1 < q.n) (hx : yx.2 < q.n) {r c : Nat} (hc : c < q.n) (hne : yx ≠ (r, c)) :
    (placeStep bytes (q, idx) yx).1.get r c = q.get r c := by
  simp only [placeStep]
  split
  · rw [QR.get_set q _ hq hy hx hc]
    have : ¬ (yx.1 = r ∧ yx.2 = c) := by
      intro h; apply hne; cases yx; simp at h; simp [h]
    simp [this]
  · rfl

theorem placeFold_untouched (bytes : Array Nat) (coords : List (Nat × Nat)) (q : QR) (idx : Nat) (hq : WF q)
    (hco : ∀ yx ∈ coords, yx.1 < q.n ∧ yx.2 < q.n) {r c : Nat} (hc : c < q.n) (hnot : (r, c) ∉ coords) :
    (coords.foldl (placeStep bytes) (q, idx)).1.get r c = q.get r c := by
  induction coords generalizing q idx with
  | nil => rfl
  | cons yx rest ih =>
    have hyx := hco yx (by simp)
    obtain ⟨hn1, hwf1, _⟩ := placeStep_props bytes q idx hq yx hyx.1 hyx.2
    rw [List.foldl_cons]
    rw [ih (placeStep bytes (q, idx) yx).1 (placeStep bytes (q, idx) yx).2 hwf1
      (fun p hp => by rw [hn1]; exact hco p (by simp [hp])) (by rw [hn1]; exact hc)
      (fun h => hnot (by simp [h]))]
    exact placeStep_other bytes q idx hq yx hyx.1 hyx.2 hc (fun h => hnot (by simp [h]))

/-- **placement read-back**: the k-th Data-typed cell of the scan holds bit `idx + k` afterwards -/
theorem placeFold_read (bytes : Array Nat) (q0 : QR) (coords : List (Nat × Nat))
    (hco : ∀ yx ∈ coords, yx.1 < q0.n ∧ yx.2 < q0.n) :
    ∀ (q : QR) (idx : Nat), WF q → q.n = q0.n → (∀ r c, c < q0.n → mtype (q.get r c) = mtype (q0.get r c)) →
      (coords.filter fun yx => mtype (q0.get yx.1 yx.2) == tData).Nodup →
      ∀ k (hk : k < (coords.filter fun yx => mtype (q0.get yx.1 yx.2) == tData).length),
        mval ((coords.foldl (placeStep bytes) (q, idx)).1.get
          ((coords.filter fun yx => mtype (q0.get yx.1 yx.2) == tData)[k]).1
          ((coords.filter fun yx => mtype (q0.get yx.1 yx.2) == tData)[k]).2) = bitAt bytes (idx + k) := by
  induction coords with
  | nil => intro q idx _ _ _ _ k hk; simp at hk
  | cons yx rest ih =>
    intro q idx hq hn ht hnd k hk
    have hyx := hco yx (by simp)
    have hrest : ∀ p ∈ rest, p.1 < q0.n ∧ p.2 < q0.n := fun p hp => hco p (by simp [hp])
    obtain ⟨hn1, hwf1, hp1⟩ := placeStep_props bytes q idx hq yx (by rw [hn]; exact hyx.1) (by rw [hn]; exact hyx.2)
    have ht1 : ∀ r c, c < q0.n → mtype ((placeStep bytes (q, idx) yx).1.get r c) = mtype (q0.get r c) :=
      fun r c hc => by rw [(hp1 r c (by rw [hn]; exact hc)).1]; exact ht r c hc
    have hty := ht yx.1 yx.2 hyx.2
    rw [List.foldl_cons]
    by_cases hd : mtype (q0.get yx.1 yx.2) = tData
    · have h2 : (mtype (q0.get yx.1 yx.2) == tData) = true := by simpa using hd
      have h1 : (mtype (q.get yx.1 yx.2) == tData) = true := by rw [hty]; exact h2
      simp only [List.filter_cons, h2, if_true] at hnd hk ⊢
      have hnd' := (List.nodup_cons.mp hnd)
      cases k with
      | zero =>
        simp only [List.getElem_cons_zero, Nat.add_zero]
        have hnotin : (yx.1, yx.2) ∉ rest := by
          intro hin
          apply hnd'.1
          rw [List.mem_filter]
          exact ⟨hin, h2⟩
        rw [placeFold_untouched bytes rest _ _ hwf1 (fun p hp => by rw [hn1, hn]; exact hrest p hp)
          (by rw [hn1, hn]; exact hyx.2) hnotin]
        simp only [placeStep, h1, if_true]
        rw [QR.get_set q _ hq (by rw [hn]; exact hyx.1) (by rw [hn]; exact hyx.2) (by rw [hn]; exact hyx.2)]
        simp
      | succ k' =>
        simp only [List.getElem_cons_succ]
        have hstep : (placeStep bytes (q, idx) yx).2 = idx + 1 := by simp only [placeStep, h1, if_true]
        have := ih hrest (placeStep bytes (q, idx) yx).1 (placeStep bytes (q, idx) yx).2 hwf1 (by rw [hn1, hn]) ht1
          hnd'.2 k' (by simpa using hk)
        have hpair : placeStep bytes (q, idx) yx = ((placeStep bytes (q, idx) yx).1, idx + 1) := by
          rw [← hstep]
        rw [hstep] at this
        have e : idx + (k' + 1) = idx + 1 + k' := by omega
        rw [e, hpair]; exact this
    · have h2 : (mtype (q0.get yx.1 yx.2) == tData) = false := by simpa using hd
      have h1 : (mtype (q.get yx.1 yx.2) == tData) = false := by rw [hty]; exact h2
      simp only [List.filter_cons, h2, Bool.false_eq_true, if_false] at hnd hk ⊢
      have hstep : placeStep bytes (q, idx) yx = (q, idx) := by simp only [placeStep, h1, Bool.false_eq_true, if_false]
      rw [hstep]
      exact ih hrest q idx hq hn ht hnd k hk

/-- the visit-count array counts occurrences -/
theorem visitCount_get (n : Nat) (ps : List (Nat × Nat)) (init : Array Nat) (hsz : init.size = n * n)
    (hps : ∀ p ∈ ps, p.1 < n ∧ p.2 < n) {r c : Nat} (_hr : r < n) (hc : c < n) :
    (ps.foldl (fun a rc => a.modify (rc.1 * n + rc.2) (· + 1)) init).getD (r * n + c) 0 =
      init.getD (r * n + c) 0 + ps.count (r, c) := by
  induction ps generalizing init with
  | nil => simp
  | cons p ps ih =>
    have hp := hps p (by simp)
    rw [List.foldl_cons, ih _ (by simp [hsz]) (fun x hx => hps x (by simp [hx]))]
    have hlt : p.1 * n + p.2 < init.size := by rw [hsz]; exact idx_lt hp.1 hp.2
    by_cases hpe : p = (r, c)
    · subst hpe
      simp only [List.count_cons_self, Array.getD_eq_getD_getElem?, Array.getElem?_modify, if_true]
      have hget : init[r * n + c]? = some init[r * n + c] := Array.getElem?_eq_getElem hlt
      simp [hget]; omega
    · have hne : (p == (r, c)) = false := by simpa using hpe
      have hidx : p.1 * n + p.2 ≠ r * n + c := by
        intro h
        have := (QR.index_inj hp.2 hc).1 h
        apply hpe; cases p; simp at this; simp [this]
      simp [List.count_cons, hne, Array.getD_eq_getD_getElem?, Array.getElem?_modify, hidx]

theorem modelScan_facts {v : Nat} (hv : v < 40) :
    (modelScan v).Nodup ∧ (∀ p ∈ scanCoords (Regions.side v), p.1 < Regions.side v ∧ p.2 < Regions.side v) ∧
    modelScan v = Decode.scan v (Regions.regionMap v) ∧ (modelScan v).length = 8 * T.maxBytes v + T.missingBits v := by
  have hs := all_range scanOk_all v hv
  simp only [scanOk, Bool.and_eq_true, beq_iff_eq, and_assoc] at hs
  obtain ⟨heq, hin, _, hvis, hlen, _⟩ := hs
  simp only [List.all_eq_true, decide_eq_true_eq] at hin
  refine ⟨?_, hin, heq, hlen⟩
  have hn := template_n hv
  have hmem : ∀ p ∈ modelScan v, p.1 < Regions.side v ∧ p.2 < Regions.side v := by
    intro p hp
    simp only [modelScan, List.mem_filter, hn] at hp
    exact hin p hp.1
  rw [List.nodup_iff_count]
  intro ⟨r, c⟩
  by_cases hrc : r < Regions.side v ∧ c < Regions.side v
  · have hcnt := visitCount_get (Regions.side v) (modelScan v) (Array.replicate (Regions.side v * Regions.side v) 0)
      (by simp) hmem hrc.1 hrc.2
    simp only [List.all_eq_true, List.mem_range, beq_iff_eq] at hvis
    have := hvis (r * Regions.side v + c) (idx_lt hrc.1 hrc.2)
    rw [hcnt] at this
    have h0 : (Array.replicate (Regions.side v * Regions.side v) 0).getD (r * Regions.side v + c) 0 = 0 := by
      simp [Array.getD_eq_getD_getElem?, Array.getElem?_replicate]
      split <;> rfl
    rw [h0] at this
    split at this <;> omega
  · have : List.count (r, c) (modelScan v) = 0 := by
      rw [List.count_eq_zero]
      intro hin'
      exact hrc (hmem _ hin')
    omega

/-- **C01 stage (c)**: after `place_on_matrix_data` on the blank symbol, the k-th cell of the ISO
read-out order holds bit k of the codeword sequence -/
theorem placeData_read {v : Nat} (hv : v < 40) (bytes : Array Nat) (k : Nat) (hk : k < (modelScan v).length) :
    (placeData (template v) bytes).1.value ((modelScan v)[k]).1 ((modelScan v)[k]).2 = bitAt bytes k := by
  obtain ⟨hnd, hin, _, _⟩ := modelScan_facts hv
  have hn := template_n hv
  have hwf : WF (template v) := by simp only [WF, template_size hv, hn]
  have := placeFold_read bytes (template v) (scanCoords (template v).n) (by rw [hn]; exact hin) (template v) 0 hwf rfl
    (fun _ _ _ => rfl) hnd k hk
  simp only [Nat.zero_add] at this
  simp only [placeData, QR.value, modelScan, QR.type]
  exact this
end FastQr.Proofs.PlaceRead
