import FastQr.Model.Svg
import FastQr.Spec.SvgParse
/-
C12: the path data of a layer, read back. For every built-in shape and every list of cells the `d`
attribute the renderer writes is read by the specification's path reader (`Spec.SvgParse.cellsOf`) as
exactly one sub-path per cell anchored at that cell, in order. Decimal numbers through core's
`Nat.toDigits` lemmas; the `M` splitter; the six shape bodies.
-/
namespace FastQr.Proofs.SvgPath
open FastQr Model Model.Svg Spec.SvgParse

/-- decimal digits of a natural -/
def dig (n : Nat) : List Char := Nat.toDigits 10 n

theorem toString_toList (n : Nat) : (toString n).toList = dig n := by
  rw [Nat.toString_eq_repr, Nat.toList_repr]; rfl

/-- the text of one sub-path, after its `M` -/
def body (shape y x : Nat) : List Char :=
  match shape with
  | 0 => dig x ++ ",".toList ++ dig y ++ "h1v1h-1".toList
  | 1 => dig (x + 1) ++ ",".toList ++ dig y ++ ".5a.5,.5 0 1,1 0,-.1".toList
  | 2 => dig x ++ ".2,".toList ++ dig y ++ ".2 ".toList ++ dig x ++ ".8,".toList ++ dig y ++ ".2 ".toList ++
          dig x ++ ".8,".toList ++ dig y ++ ".8 ".toList ++ dig x ++ ".2,".toList ++ dig y ++ ".8z".toList
  | 3 => dig x ++ ".1,".toList ++ dig y ++ "h.8v1h-.8".toList
  | 4 => dig x ++ ",".toList ++ dig y ++ ".1h1v.8h-1".toList
  | _ => dig x ++ ".5,".toList ++ dig y ++ "l.5,.5l-.5,.5l-.5,-.5z".toList

theorem shapeStr_toList (shape y x : Nat) : (shapeStr shape y x).toList = 'M' :: body shape y x := by
  unfold shapeStr body
  split <;> simp [toString_toList, String.toList_append] <;> rfl

/-! ### reading numbers back -/

theorem dig_isDigit (n : Nat) : ∀ c ∈ dig n, c.isDigit = true :=
  fun c hc => Nat.isDigit_of_mem_toDigits (by decide) (by decide) hc

theorem dig_ne_nil (n : Nat) : dig n ≠ [] := Nat.toDigits_ne_nil

theorem takeWhile_append_stop {p : Char → Bool} : ∀ (l rest : List Char), (∀ c ∈ l, p c = true) →
    (∀ c, rest.head? = some c → p c = false) →
    (l ++ rest).takeWhile p = l ∧ (l ++ rest).dropWhile p = rest
  | [], rest, _, hr => by
    cases rest with
    | nil => simp
    | cons c r => simp [List.takeWhile, List.dropWhile, hr c rfl]
  | a :: l, rest, hl, hr => by
    have ih := takeWhile_append_stop l rest (fun c hc => hl c (by simp [hc])) hr
    simp [List.takeWhile, List.dropWhile, hl a (by simp), ih.1, ih.2]

theorem dig_value (n : Nat) : (dig n).foldl (fun a c => 10 * a + (c.toNat - 48)) 0 = n := by
  have := @Nat.ofDigitChars_ten_toDigits n
  simpa [Nat.ofDigitChars, dig] using this

/-- integer followed by something that is neither a digit nor a point -/
theorem number_int (n : Nat) (c : Char) (r : List Char) (hc : c.isDigit = false) (hp : c ≠ '.') :
    number (dig n ++ c :: r) = some (n, false, c :: r) := by
  obtain ⟨h1, h2⟩ := takeWhile_append_stop (p := Char.isDigit) (dig n) (c :: r) (dig_isDigit n)
    (by intro d hd; simp at hd; rw [← hd]; exact hc)
  simp only [number, h1, h2, dig_value]
  have : dig n ≠ [] := dig_ne_nil n
  split
  · rename_i heq
    simp only [List.cons.injEq] at heq
    exact absurd heq.1 hp
  · simp [this]

/-- integer with a one-digit fraction, followed by a non-digit -/
theorem number_frac (n : Nat) (d c : Char) (r : List Char) (hd : d.isDigit = true) (hc : c.isDigit = false) :
    number (dig n ++ '.' :: d :: c :: r) = some (n, true, c :: r) := by
  obtain ⟨h1, h2⟩ := takeWhile_append_stop (p := Char.isDigit) (dig n) ('.' :: d :: c :: r) (dig_isDigit n)
    (by intro x hx; simp at hx; rw [← hx]; decide)
  obtain ⟨h3, h4⟩ := takeWhile_append_stop (p := Char.isDigit) [d] (c :: r) (by simp [hd])
    (by intro x hx; simp at hx; rw [← hx]; exact hc)
  simp only [List.singleton_append] at h3 h4
  simp only [number, h1, h2, dig_value, h3, h4]
  simp

theorem anchor_body (shape y x : Nat) : anchor (body shape y x) = some (x, y) := by
  unfold body
  split
  · simp only [List.append_assoc]
    show anchor (dig x ++ ',' :: (dig y ++ 'h' :: "1v1h-1".toList)) = _
    simp only [anchor, number_int x ',' _ (by decide) (by decide), number_int y 'h' _ (by decide) (by decide)]
    simp
  · simp only [List.append_assoc]
    show anchor (dig (x + 1) ++ ',' :: (dig y ++ '.' :: '5' :: 'a' :: ".5,.5 0 1,1 0,-.1".toList)) = _
    simp only [anchor, number_int (x + 1) ',' _ (by decide) (by decide), number_frac y '5' 'a' _ (by decide) (by decide)]
    simp
  · simp only [List.append_assoc]
    show anchor (dig x ++ '.' :: '2' :: ',' :: (dig y ++ '.' :: '2' :: ' ' :: _)) = _
    simp only [anchor, number_frac x '2' ',' _ (by decide) (by decide), number_frac y '2' ' ' _ (by decide) (by decide)]
    simp
  · simp only [List.append_assoc]
    show anchor (dig x ++ '.' :: '1' :: ',' :: (dig y ++ 'h' :: ".8v1h-.8".toList)) = _
    simp only [anchor, number_frac x '1' ',' _ (by decide) (by decide), number_int y 'h' _ (by decide) (by decide)]
    simp
  · simp only [List.append_assoc]
    show anchor (dig x ++ ',' :: (dig y ++ '.' :: '1' :: 'h' :: "1v.8h-1".toList)) = _
    simp only [anchor, number_int x ',' _ (by decide) (by decide), number_frac y '1' 'h' _ (by decide) (by decide)]
    simp
  · simp only [List.append_assoc]
    show anchor (dig x ++ '.' :: '5' :: ',' :: (dig y ++ 'l' :: ".5,.5l-.5,.5l-.5,-.5z".toList)) = _
    simp only [anchor, number_frac x '5' ',' _ (by decide) (by decide), number_int y 'l' _ (by decide) (by decide)]
    simp

/-! ### splitting the path data at its `M`s -/

theorem splitOnM_append (b : List Char) (hb : 'M' ∉ b) : ∀ (r p : List Char) (ps : List (List Char)),
    splitOnM r = p :: ps → splitOnM (b ++ r) = (b ++ p) :: ps := by
  induction b with
  | nil => intro r p ps h; simpa using h
  | cons c cs ih =>
    intro r p ps h
    have hc : c ≠ 'M' := fun e => hb (by simp [e])
    have := ih (fun hm => hb (by simp [hm])) r p ps h
    simp only [List.cons_append, splitOnM, hc, if_false, this]

theorem splitOnM_bodies : ∀ (L : List (List Char)), (∀ b ∈ L, 'M' ∉ b) →
    splitOnM (L.flatMap fun b => 'M' :: b) = [] :: L
  | [], _ => rfl
  | b :: L, h => by
    have ih := splitOnM_bodies L (fun x hx => h x (by simp [hx]))
    simp only [List.flatMap_cons, List.cons_append, splitOnM, if_true]
    rw [splitOnM_append b (h b (by simp)) _ [] L ih, List.append_nil]

def NoM (l : List Char) : Prop := ∀ c ∈ l, c ≠ 'M' ∧ c ≠ 'm'

theorem NoM_append {a b : List Char} (ha : NoM a) (hb : NoM b) : NoM (a ++ b) := by
  intro c hc
  rcases List.mem_append.mp hc with h | h
  · exact ha c h
  · exact hb c h

theorem dig_no_M (n : Nat) : NoM (dig n) := by
  intro c hc
  have := dig_isDigit n c hc
  constructor <;> (intro e; subst e; revert this; decide)

theorem body_no_M (shape y x : Nat) : NoM (body shape y x) := by
  unfold body
  split
  all_goals
    repeat' apply NoM_append
  all_goals first
    | exact dig_no_M _
    | (intro c hc; revert c; decide)

/-! ### the path data of a layer reads back as exactly its cells -/

theorem pathData_toList (shape : Nat) (cells : List (Nat × Nat)) :
    (String.join (cells.map fun (yx : Nat × Nat) => shapeStr shape yx.1 yx.2)).toList =
      (cells.map fun yx => body shape yx.1 yx.2).flatMap fun b => 'M' :: b := by
  rw [String.toList_join, List.flatMap_map, List.flatMap_map]
  congr 1
  funext yx
  exact shapeStr_toList shape yx.1 yx.2

theorem mapM_anchor (shape : Nat) : ∀ (cells : List (Nat × Nat)),
    (cells.map fun yx => body shape yx.1 yx.2).mapM anchor = some (cells.map fun yx => (yx.2, yx.1))
  | [] => rfl
  | yx :: rest => by
    simp only [List.map_cons, List.mapM_cons, anchor_body, mapM_anchor shape rest]
    rfl

/-- the sub-paths of a layer's path data are the shape bodies of its cells, in order -/
theorem subPaths_pathData (shape : Nat) (cells : List (Nat × Nat)) :
    subPaths (String.join (cells.map fun (yx : Nat × Nat) => shapeStr shape yx.1 yx.2)) =
      some (cells.map fun yx => body shape yx.1 yx.2) := by
  simp only [subPaths, pathData_toList]
  have hsplit := splitOnM_bodies (cells.map fun yx => body shape yx.1 yx.2) (by
    intro b hb
    simp only [List.mem_map] at hb
    obtain ⟨yx, _, rfl⟩ := hb
    exact fun hm => (body_no_M shape yx.1 yx.2 _ hm).1 rfl)
  cases cells with
  | nil => rfl
  | cons yx rest =>
    have hhead : (((yx :: rest).map fun yx => body shape yx.1 yx.2).flatMap fun b => 'M' :: b) =
        'M' :: (body shape yx.1 yx.2 ++ ((rest.map fun yx => body shape yx.1 yx.2).flatMap fun b => 'M' :: b)) := by
      simp
    rw [hhead] at hsplit ⊢
    simp only [subPathsL, hsplit, List.drop_one, List.tail_cons]
    rw [if_neg]
    intro hany
    simp only [List.any_eq_true, beq_iff_eq] at hany
    obtain ⟨p, hp, c, hc, he⟩ := hany
    simp only [List.mem_map] at hp
    obtain ⟨yx', _, rfl⟩ := hp
    exact (body_no_M shape yx'.1 yx'.2 c hc).2 he

/-- **C12 (sub-paths)**: for every built-in shape and every list of cells, the `d` attribute the
renderer writes — one `shape(y, x)` command per cell — is read by the path reader of the specification
as exactly one sub-path per cell, anchored at (x, y), in the same order; nothing else -/
theorem cellsOf_pathData (shape : Nat) (cells : List (Nat × Nat)) :
    cellsOf (String.join (cells.map fun (yx : Nat × Nat) => shapeStr shape yx.1 yx.2)) =
      some (cells.map fun yx => (yx.2, yx.1)) := by
  simp only [cellsOf, subPaths_pathData]
  exact mapM_anchor shape cells
end FastQr.Proofs.SvgPath
