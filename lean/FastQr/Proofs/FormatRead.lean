import FastQr.Proofs.ReadBack
import FastQr.Finite.TablesFormatWord
import FastQr.Proofs.Lift
import FastQr.Proofs.ParseSound
namespace FastQr.Proofs.FormatRead
open FastQr Model Spec Finite Proofs Spec.Bitstream Proofs.ParseSound

theorem readWord_eq (g : Grid) (cells : List (Int × Int)) :
    Decode.readWord g cells = ofBits (cells.map fun p => g.dark (g.rel p.2) (g.rel p.1)) := by
  simp only [Decode.readWord, ofBits, List.foldl_map]

/-- the crate's format word table = BCH(15,5) words (tier K) -/
theorem format_table (l : ECL) {m : Nat} (hm : m < 8) : T.formatInfo l m = BCH.format15 l m := by
  have h := all_range (all_ecl formatOk_true l) m hm
  simpa using h

def fmtFacts : Bool :=
  ECL.all.all fun l => (List.range 8).all fun m =>
    decide (BCH.format15 l m < 2 ^ 15) && Decode.findFormat (BCH.format15 l m) == some (l, m)
theorem fmtFacts_true : fmtFacts = true := by decide +kernel

theorem format_facts (l : ECL) {m : Nat} (hm : m < 8) :
    BCH.format15 l m < 2 ^ 15 ∧ Decode.findFormat (BCH.format15 l m) = some (l, m) := by
  have := all_range (all_ecl fmtFacts_true l) m hm
  simpa using this

/-- **C01 stage (a)**: the first copy of the format information in the final symbol is the format
word of (level, mask), which identifies them -/
theorem formatCopy1_final {v m : Nat} (hv : v < 40) (hm : m < 8) (l : ECL) (bytes : Array Nat) :
    Decode.formatCopy1 ⟨(finalMatrix v bytes l m).n, (finalMatrix v bytes l m).cells⟩ = T.formatInfo l m := by
  have hlt : T.formatInfo l m < 2 ^ 15 := by rw [format_table l hm]; exact (format_facts l hm).1
  rw [Decode.formatCopy1, readWord_eq, ← ofBits_toBits_lt hlt]
  congr 1
  apply List.ext_getElem
  · simp [toBits_length, Iso.formatMain]
  · intro i h1 h2
    have hi : i < 15 := by simpa [Iso.formatMain] using h1
    have hi' : i < Iso.formatMain.length := by simpa [Iso.formatMain] using hi
    have hn : (finalMatrix v bytes l m).n = Regions.side v := (finalMatrix_props hv hm l bytes (r := 0) (c := 0)
      (by simp only [Regions.side]; omega) (by simp only [Regions.side]; omega)).1
    simp only [List.getElem_map]
    -- the i-th ISO cell
    have hcell : (Regions.formatCells (Regions.side v))[i]? =
        some (Grid.rel ⟨Regions.side v, (finalMatrix v bytes l m).cells⟩ (Iso.formatMain[i]).2,
              Grid.rel ⟨Regions.side v, (finalMatrix v bytes l m).cells⟩ (Iso.formatMain[i]).1) := by
      simp only [Regions.formatCells, List.getElem?_map, List.getElem?_append_left hi', List.getElem?_eq_getElem hi',
        Option.map_some, Grid.rel]
    have hbnd : ∀ k : Int, 0 ≤ k → k ≤ 8 → Grid.rel ⟨Regions.side v, (finalMatrix v bytes l m).cells⟩ k < Regions.side v := by
      intro k h0 h8
      simp only [Grid.rel, Regions.side]
      split <;> omega
    have hall : ∀ p ∈ Iso.formatMain, (0 ≤ p.1 ∧ p.1 ≤ 8) ∧ (0 ≤ p.2 ∧ p.2 ≤ 8) := by decide
    have hp := hall _ (List.getElem_mem hi')
    have := (finalMatrix_props hv hm l bytes (hbnd _ hp.2.1 hp.2.2) (hbnd _ hp.1.1 hp.1.2)).2.2.2 i hcell
    rw [hn]
    simp only [Grid.dark, Grid.raw]
    have hget : (finalMatrix v bytes l m).get
        (Grid.rel ⟨Regions.side v, (finalMatrix v bytes l m).cells⟩ (Iso.formatMain[i]).2)
        (Grid.rel ⟨Regions.side v, (finalMatrix v bytes l m).cells⟩ (Iso.formatMain[i]).1) =
        (finalMatrix v bytes l m).cells.getD
          (Grid.rel ⟨Regions.side v, (finalMatrix v bytes l m).cells⟩ (Iso.formatMain[i]).2 * Regions.side v +
           Grid.rel ⟨Regions.side v, (finalMatrix v bytes l m).cells⟩ (Iso.formatMain[i]).1) 0 := by
      simp only [QR.get, hn]
    rw [← hget, this]
    have hmod : i % 15 = i := Nat.mod_eq_of_lt hi
    rw [hmod]
    have := mval_mk ((T.formatInfo l m >>> (14 - i)) % 2 == 1) tFormat
    simp only [mval] at this
    rw [this]
    simp [toBits]
    
theorem version_final {v m : Nat} (hv : v < 40) (hm : m < 8) (l : ECL) (bytes : Array Nat) :
    Grid.version? ⟨(finalMatrix v bytes l m).n, (finalMatrix v bytes l m).cells⟩ = some v := by
  have hn : (finalMatrix v bytes l m).n = Regions.side v := (finalMatrix_props hv hm l bytes (r := 0) (c := 0)
      (by simp only [Regions.side]; omega) (by simp only [Regions.side]; omega)).1
  obtain ⟨hpn, hpwf, _⟩ := placeData_template hv bytes
  have hwf : WF (finalMatrix v bytes l m) := applyMask_WF _ _ (applyWrites_WF _ _ hpwf)
  simp only [WF] at hwf
  rw [hn] at hwf
  simp only [Grid.version?, hn, hwf, Regions.side]
  have h2 : (21 + 4 * v - 21) / 4 = v := by omega
  have h1 : 21 + 4 * v ≥ 21 ∧ (21 + 4 * v - 21) % 4 = 0 ∧ v < 40 ∧ True := ⟨by omega, by omega, hv, trivial⟩
  rw [h2, if_pos h1]
end FastQr.Proofs.FormatRead
