/-
Totality of the model builder: no stage records a trap, for every byte string and every legal
option combination whose (forced or automatic) mode can represent the input.
-/
import FastQr.Props.C11Masks
import FastQr.Proofs.BuildSound
import FastQr.Proofs.StructSize
import FastQr.Proofs.CandidateLight
import FastQr.Proofs.StructureSound
import FastQr.Proofs.ScoreBounds
import FastQr.Proofs.EncodeSound
import FastQr.Props.C09

namespace FastQr.Proofs.Total
open FastQr Model Spec Finite Proofs

/-! ### data placement bit count -/

theorem placeFold_count (bytes : Array Nat) (q0 : QR) (coords : List (Nat × Nat))
    (hco : ∀ yx ∈ coords, yx.1 < q0.n ∧ yx.2 < q0.n) :
    ∀ (q : QR) (idx : Nat), WF q → q.n = q0.n → (∀ r c, c < q0.n → mtype (q.get r c) = mtype (q0.get r c)) →
      (coords.foldl (placeStep bytes) (q, idx)).2 =
        idx + (coords.filter fun yx => mtype (q0.get yx.1 yx.2) == tData).length := by
  induction coords with
  | nil => intro q idx _ _ _; simp
  | cons yx rest ih =>
    intro q idx hq hn ht
    have hyx := hco yx (by simp)
    rw [List.foldl_cons]
    obtain ⟨hn1, hwf1, hp1⟩ := placeStep_props bytes q idx hq yx (by rw [hn]; exact hyx.1) (by rw [hn]; exact hyx.2)
    have hrest := ih (fun p hp => hco p (by simp [hp])) (placeStep bytes (q, idx) yx).1 (placeStep bytes (q, idx) yx).2
      hwf1 (by rw [hn1, hn]) (fun r c hc => by rw [(hp1 r c (by rw [hn]; exact hc)).1]; exact ht r c hc)
    rw [hrest]
    have hty := ht yx.1 yx.2 hyx.2
    simp only [List.filter_cons]
    by_cases hd : mtype (q0.get yx.1 yx.2) = tData
    · have h1 : (mtype (q.get yx.1 yx.2) == tData) = true := by rw [hty]; simpa using hd
      have h2 : (mtype (q0.get yx.1 yx.2) == tData) = true := by simpa using hd
      simp only [placeStep, h1, if_true, h2, List.length_cons]; omega
    · have h1 : (mtype (q.get yx.1 yx.2) == tData) = false := by rw [hty]; simpa using hd
      have h2 : (mtype (q0.get yx.1 yx.2) == tData) = false := by simpa using hd
      simp only [placeStep, h1, Bool.false_eq_true, if_false, h2]

theorem placeData_count {v : Nat} (hv : v < 40) (bytes : Array Nat) :
    (placeData (template v) bytes).2 = 8 * T.maxBytes v + T.missingBits v := by
  have hn := template_n hv
  have hwf : WF (template v) := by simp only [WF, template_size hv, hn]
  have hs := all_range scanOk_all v hv
  simp only [scanOk, Bool.and_eq_true, beq_iff_eq, and_assoc] at hs
  obtain ⟨_, hin, _, _, hlen, _⟩ := hs
  have hco : ∀ yx ∈ scanCoords (template v).n, yx.1 < (template v).n ∧ yx.2 < (template v).n := by
    rw [hn]
    simp only [List.all_eq_true, decide_eq_true_eq] at hin
    exact hin
  have := placeFold_count bytes (template v) (scanCoords (template v).n) hco (template v) 0 hwf rfl (fun _ _ _ => rfl)
  simp only [placeData, this, Nat.zero_add]
  simpa [modelScan, QR.type] using hlen

/-! ### `place_on_matrix` -/

theorem placeOnMatrix_traps {v : Nat} (hv : v < 40) (l : ECL) (bytes : Array Nat) (hsz : bytes.size = 5430)
    (forced : Option Nat) (hf : ∀ m, forced = some m → m < 8) : (placeOnMatrix bytes l v forced).traps = [] := by
  obtain ⟨hpn, hpwf, _⟩ := placeData_template hv bytes
  have hsb := side_bounds hv
  have hmo := Props.C11.C11_masks_order
  have hcnt := placeData_count hv bytes
  have hs := all_range scanOk_all v hv
  simp only [scanOk, Bool.and_eq_true, beq_iff_eq, and_assoc] at hs
  obtain ⟨_, hin, hcol, _, _, _⟩ := hs
  have hil := StructureSound.interleaveOk_of hv ECL.L
  simp only [interleaveOk, Bool.and_eq_true, beq_iff_eq, decide_eq_true_eq, and_assoc] at hil
  have h5430 : T.maxBytes v + 1 ≤ 5430 := hil.2.2.2.2.2.2.2.1
  have hmiss : T.missingBits v ≤ 7 := by
    have := all_range remainderOk_true v hv
    simp only [beq_iff_eq] at this
    rw [this]
    have : ∀ w, w < 40 → Iso.remainderBits w ≤ 7 := by decide
    exact this v hv
  have htn := template_n hv
  -- the individual trap lists
  have t1 : templateTraps v = [] := template_traps hv
  have t2 : placeTraps (template v) bytes.size (placeData (template v) bytes).2 v = [] := by
    simp only [placeTraps, htn, hcol, hin, if_true, hcnt, hsz, List.nil_append]
    have c1 : (8 * T.maxBytes v + T.missingBits v = 0 ∨ (8 * T.maxBytes v + T.missingBits v - 1) / 8 < 5430) := by
      right; omega
    have c2 : T.missingBits v ≤ 8 * T.maxBytes v + T.missingBits v ∧
        8 * T.maxBytes v + T.missingBits v - T.missingBits v = T.maxBytes v * 8 := by omega
    rw [if_pos c1, if_pos c2]; rfl
  have t3 : (T.masksOrder.flatMap fun m => maskTraps m (placeData (template v) bytes).1.n) = [] := by
    rw [hmo, hpn]
    have : ∀ m, m < 8 → maskTraps m (Regions.side v) = [] := by
      intro m hm
      exact SweepSym.maskTraps_nil m _
    simp [this]
  have t4 : ((candidates (placeData (template v) bytes).1).flatMap fun c => scoreTraps c.qr (transpose c.qr)) = [] := by
    rw [List.flatMap_eq_nil_iff]
    intro c hc
    simp only [candidates, List.mem_map] at hc
    obtain ⟨m, hm, rfl⟩ := hc
    rw [hmo] at hm
    have hm8 : m < 8 := by
      simp only [List.mem_cons, List.not_mem_nil, or_false] at hm
      rcases hm with rfl | rfl | rfl | rfl | rfl | rfl | rfl | rfl <;> omega
    have hnn : (applyMask m (placeData (template v) bytes).1).n = Regions.side v := by rw [applyMask_n, hpn]
    have hwf : WF (applyMask m (placeData (template v) bytes).1) := applyMask_WF m _ hpwf
    have d1 := ScoreBounds.darkPercent_lt (applyMask m (placeData (template v) bytes).1) hwf (by rw [hnn]; omega)
      (candidate_light hv hm8 bytes)
    have d2 := ScoreBounds.score_lt (applyMask m (placeData (template v) bytes).1)
      (transpose (applyMask m (placeData (template v) bytes).1)) rfl (by rw [hnn]; omega)
    simp only [scoreTraps, d1, d2, if_true, List.nil_append]
    have : (placeData (template v) bytes).1.n ≠ 0 := by rw [hpn]; omega
    simp [this]
  have hm8 := placeOnMatrix_mask_lt bytes l v forced hf
  have t5 : writesInBounds (placeData (template v) bytes).1.n
      (formatWrites (placeData (template v) bytes).1.n (T.formatInfo l (placeOnMatrix bytes l v forced).val.2)) = true := by
    have hfp := formatPosOk_of hv l hm8
    simp only [formatPosOk, Bool.and_eq_true, and_assoc] at hfp
    rw [hpn]; exact hfp.1
  have hmval : (placeOnMatrix bytes l v forced).val.2 =
      forced.getD (selectBest ((candidates (placeData (template v) bytes).1).map fun c => (c.mask, c.score)) (T.masksOrder.headD 0)) := by
    simp only [placeOnMatrix, Chk.val_bind, Chk.val_pure]
  rw [hmval] at t5
  simp only [placeOnMatrix, Chk.traps_bind, Chk.val_bind, Chk.traps_pure, t1, t2, t3, t4, List.nil_append, List.append_nil,
    Chk.guard, t5, if_true]

/-! ### the builder -/

/-- **the model builder never traps** -/
theorem build_total (inp : List Nat) (o : Opts) (hb : Spec.IsBytes inp) (ho : LegalOpts o)
    (halpha : Spec.alphabetOK (o.mode.getD (bestEncoding inp)) inp = true) : (build inp o).traps = [] := by
  simp only [build]
  split
  · rfl
  · rename_i v hv
    obtain ⟨hv40, hfit⟩ := Props.C05.C05_no_overflow _ _ _ o.version v ho.1 hv
    have hfits : Spec.fits (o.mode.getD (bestEncoding inp)) (o.ecl.getD .Q) v inp.length = true := by
      simpa [Spec.fits] using hfit
    obtain ⟨het, _, hesz, _, _⟩ := EncodeSound.encode_bits inp (o.ecl.getD .Q) (o.mode.getD (bestEncoding inp)) v hv40 hb halpha hfits
    have hlay := Props.C02.C02_layout hv40 (o.ecl.getD .Q)
    have hst := StructureSound.structure_traps hv40 (o.ecl.getD .Q)
      (encode inp (o.ecl.getD .Q) (o.mode.getD (bestEncoding inp)) v).val.data (by
        rw [hesz, hlay.2.2.2.2.2.2]; omega)
    have hpt := placeOnMatrix_traps hv40 (o.ecl.getD .Q)
      (structureBuf (encode inp (o.ecl.getD .Q) (o.mode.getD (bestEncoding inp)) v).val.data (o.ecl.getD .Q) v).val
      (structure_size _ _ _) o.mask ho.2
    simp only [Chk.traps_bind, Chk.val_bind, Chk.traps_pure, createMatrix, het, hst, hpt, List.nil_append, List.append_nil]

/-- in automatic mode no alphabet hypothesis is needed: the classifier's mode always fits the input -/
theorem build_total_auto (inp : List Nat) (o : Opts) (hb : Spec.IsBytes inp) (ho : LegalOpts o)
    (hauto : o.mode = none) : (build inp o).traps = [] := by
  apply build_total inp o hb ho
  rw [hauto]
  exact Props.C09.C09_never_rejects inp hb

end FastQr.Proofs.Total
