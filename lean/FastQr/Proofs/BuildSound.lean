/-
From the builder to the final matrix: a successful model build returns
`finalMatrix version bytes level mask` for the codeword sequence it computed, with version < 40 and
mask < 8 (forced options are assumed to be legal enum values, as the Rust types guarantee).
-/
import FastQr.Proofs.Invariance
import FastQr.Props.C05
import FastQr.Props.C11
import FastQr.Finite.TablesMasksBound

namespace FastQr.Proofs
open FastQr Model Spec Finite

/-- forced options are legal enum values -/
def LegalOpts (o : Opts) : Prop := (∀ v, o.version = some v → v < 40) ∧ (∀ m, o.mask = some m → m < 8)

theorem selectBest_lt (cs : List (Nat × Nat)) (first : Nat) (hf : first < 8) (hcs : ∀ c ∈ cs, c.1 < 8) :
    selectBest cs first < 8 := by
  have h := Props.C11.select_fold cs (2 ^ 32 - 1, first)
  simp only at h
  obtain ⟨_, _, h3⟩ := h
  simp only [selectBest]
  cases h3 with
  | inl heq => rw [heq]; exact hf
  | inr h => obtain ⟨c, hc, hr⟩ := h; rw [hr]; exact hcs c hc

theorem placeOnMatrix_mask_lt (bytes : Array Nat) (l : ECL) (v : Nat) (forced : Option Nat)
    (hf : ∀ m, forced = some m → m < 8) : (placeOnMatrix bytes l v forced).val.2 < 8 := by
  simp only [placeOnMatrix, Chk.val_bind, Chk.val_pure]
  cases forced with
  | some m => simpa using hf m rfl
  | none =>
    simp only [Option.getD_none]
    have ho := Finite.masks_lt
    apply selectBest_lt
    · exact ho.2
    · intro c hc
      simp only [candidates, List.map_map, List.mem_map, Function.comp] at hc
      obtain ⟨m, hm, rfl⟩ := hc
      exact ho.1 m hm

/-- a successful build returns the final matrix of its version / level / mask -/
theorem build_final (inp : List Nat) (o : Opts) (ho : LegalOpts o) (b : Built)
    (h : (build inp o).val = .ok b) :
    b.version < 40 ∧ b.mask < 8 ∧ ∃ bytes, b.qr = finalMatrix b.version bytes b.ecl b.mask := by
  simp only [build] at h
  split at h
  · simp [pure, Chk.pure'] at h
  · rename_i v hv
    simp only [Chk.val_bind, Chk.val_pure, Except.ok.injEq] at h
    subst h
    have hv40 := (Props.C05.C05_no_overflow _ _ _ o.version v ho.1 hv).1
    simp only [createMatrix, Chk.val_bind]
    refine ⟨hv40, placeOnMatrix_mask_lt _ _ _ _ ho.2, _, placeOnMatrix_val _ _ _ _⟩

/-- **labels / function patterns / format bits of every built symbol** -/
theorem built_props (inp : List Nat) (o : Opts) (ho : LegalOpts o) (b : Built)
    (h : (build inp o).val = .ok b) {r c : Nat} (hr : r < Regions.side b.version) (hc : c < Regions.side b.version) :
    b.qr.n = Regions.side b.version ∧
    b.qr.type r c = (Regions.region b.version r c).code ∧
    (∀ x, Regions.stdValue b.version r c = some x → b.qr.value r c = x) ∧
    (∀ i, (Regions.formatCells (Regions.side b.version))[i]? = some (r, c) →
      b.qr.get r c = mk ((T.formatInfo b.ecl b.mask >>> (14 - i % 15)) % 2 == 1) tFormat) := by
  obtain ⟨hv, hm, bytes, hq⟩ := build_final inp o ho b h
  rw [hq]
  exact finalMatrix_props hv hm b.ecl bytes hr hc

end FastQr.Proofs
