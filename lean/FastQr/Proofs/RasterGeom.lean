/-
C13, geometry of the ideal rasteriser (`Spec.Raster.inShape`), for every scale `U > 0`:
* `centre_in` : a point within 1/8 module of the cell centre (in both coordinates) is inside each of the six
                shapes of that cell — stroked or not;
* `in_box`    : each of the six shapes lies inside its own cell enlarged by a quarter module;
* `square_iff`: the square is exactly the half-open cell.
Integer arithmetic throughout (`omega`; `nlinarith` for the disc and the rounded corners).
-/
import FastQr.Spec.Raster
import Mathlib.Tactic.Linarith

namespace FastQr.Proofs.RasterGeom
open FastQr.Spec.Raster

theorem circle_centre (st : Bool) (U dx dy : Int) (hU : 0 < U)
    (hx1 : 3 * U ≤ 8 * dx) (hx2 : 8 * dx ≤ 5 * U) (hy1 : 3 * U ≤ 8 * dy) (hy2 : 8 * dy ≤ 5 * U) :
    inShape 1 st U dx dy = true := by
  simp only [inShape, decide_eq_true_eq]
  refine ⟨by omega, Or.inr ?_⟩
  generalize hu : 20 * dx - 20 * U = u
  generalize he : 20 * dy - 9 * U = e
  have u1 : -25 * U ≤ 2 * u := by omega
  have u2 : 2 * u ≤ -15 * U := by omega
  have e1 : -3 * U ≤ 2 * e := by omega
  have e2 : 2 * e ≤ 7 * U := by omega
  have hA1 : 225 * (U * U) ≤ 4 * (u * u) := by nlinarith
  have hA2 : 4 * (u * u) ≤ 625 * (U * U) := by nlinarith
  have hB2 : 4 * (e * e) ≤ 49 * (U * U) := by nlinarith
  have hB0 : 0 ≤ e * e := mul_self_nonneg e
  have hUU : 0 < U * U := mul_pos hU hU
  nlinarith [mul_nonneg (sub_nonneg.mpr hA1) (sub_nonneg.mpr hA2), mul_nonneg hB0 hUU.le, mul_self_nonneg (u*u), mul_nonneg hB0 hB0]

theorem circle_box (st : Bool) (U dx dy : Int) (hU : 0 < U) (h : inShape 1 st U dx dy = true) :
    -U ≤ 4 * dx ∧ 4 * dx ≤ 5 * U ∧ -U ≤ 4 * dy ∧ 4 * dy ≤ 5 * U := by
  simp only [inShape, decide_eq_true_eq] at h
  generalize hu : 20 * dx - 20 * U = u at h
  generalize he : 20 * dy - 9 * U = e at h
  obtain ⟨hu0, hK⟩ := h
  have hUU : 0 < U * U := mul_pos hU hU
  suffices hs : -25 * U ≤ u ∧ -14 * U ≤ e ∧ e ≤ 16 * U by omega
  rcases hK with hK | hK
  · have h1 : u * u ≤ U * U := by nlinarith [mul_self_nonneg e]
    have h2 : e * e ≤ U * U := by nlinarith [mul_self_nonneg u]
    refine ⟨?_, ?_, ?_⟩ <;> nlinarith
  · have hM : 4 * (u * u) * (e * e - U * U) ≤ (U * U - u * u - e * e) * (U * U - u * u - e * e) := by
      nlinarith [mul_self_nonneg (u * u - (e * e - U * U))]
    refine ⟨?_, ?_, ?_⟩
    · by_contra hc
      have hc' : u < -25 * U := by omega
      have : 625 * (U * U) < u * u := by nlinarith
      nlinarith [mul_self_nonneg e, mul_self_nonneg (u*u), mul_pos hUU hUU, mul_nonneg (mul_self_nonneg e) (mul_self_nonneg u), mul_nonneg (mul_self_nonneg e) (mul_self_nonneg e)]
    · by_contra hc
      have hc' : e < -14 * U := by omega
      have : 196 * (U * U) < e * e := by nlinarith
      have hu2 : u * u * (96 * (U * U)) ≤ 0 := by nlinarith [mul_self_nonneg u]
      have : u * u = 0 := by nlinarith [mul_self_nonneg u]
      nlinarith [mul_self_nonneg (U * U - u * u - e * e)]
    · by_contra hc
      have hc' : 16 * U < e := by omega
      have : 196 * (U * U) < e * e := by nlinarith
      have hu2 : u * u * (96 * (U * U)) ≤ 0 := by nlinarith [mul_self_nonneg u]
      have : u * u = 0 := by nlinarith [mul_self_nonneg u]
      nlinarith [mul_self_nonneg (U * U - u * u - e * e)]

theorem rounded_centre (st : Bool) (U dx dy : Int) (hU : 0 < U)
    (hx1 : 3 * U ≤ 8 * dx) (hx2 : 8 * dx ≤ 5 * U) (hy1 : 3 * U ≤ 8 * dy) (hy2 : 8 * dy ≤ 5 * U) :
    inShape 2 st U dx dy = true := by
  simp only [inShape, decide_eq_true_eq]
  have hx : max 0 (max (4 * U - 20 * dx) (20 * dx - 16 * U)) = 0 := by omega
  have hy : max 0 (max (4 * U - 20 * dy) (20 * dy - 16 * U)) = 0 := by omega
  rw [hx, hy]
  cases st
  · simp
  · simp only [if_true]; nlinarith [mul_pos hU hU]

theorem rounded_box (st : Bool) (U dx dy : Int) (hU : 0 < U) (h : inShape 2 st U dx dy = true) :
    -U ≤ 4 * dx ∧ 4 * dx ≤ 5 * U ∧ -U ≤ 4 * dy ∧ 4 * dy ≤ 5 * U := by
  simp only [inShape, decide_eq_true_eq] at h
  generalize hex : max 0 (max (4 * U - 20 * dx) (20 * dx - 16 * U)) = ex at h
  generalize hey : max 0 (max (4 * U - 20 * dy) (20 * dy - 16 * U)) = ey at h
  have hx0 : 0 ≤ ex := by omega
  have hy0 : 0 ≤ ey := by omega
  have hle : ex * ex + ey * ey ≤ 9 * (U * U) := by
    cases st
    · simp only [Bool.false_eq_true, if_false] at h; nlinarith [mul_pos hU hU]
    · simpa using h
  have hx3 : ex ≤ 3 * U := by
    by_contra hc
    have : 3 * U < ex := by omega
    nlinarith [mul_self_nonneg ey]
  have hy3 : ey ≤ 3 * U := by
    by_contra hc
    have : 3 * U < ey := by omega
    nlinarith [mul_self_nonneg ex]
  omega

/-- **near the centre of its cell, every shape is painted** -/
theorem centre_in (sh : Nat) (st : Bool) (U dx dy : Int) (hU : 0 < U)
    (hx1 : 3 * U ≤ 8 * dx) (hx2 : 8 * dx ≤ 5 * U) (hy1 : 3 * U ≤ 8 * dy) (hy2 : 8 * dy ≤ 5 * U) :
    inShape sh st U dx dy = true := by
  match sh with
  | 0 => simp only [inShape, decide_eq_true_eq]; omega
  | 1 => exact circle_centre st U dx dy hU hx1 hx2 hy1 hy2
  | 2 => exact rounded_centre st U dx dy hU hx1 hx2 hy1 hy2
  | 3 => simp only [inShape, decide_eq_true_eq]; omega
  | 4 => simp only [inShape, decide_eq_true_eq]; omega
  | n + 5 => simp only [inShape, decide_eq_true_eq]; omega

/-- **every shape stays within its own cell enlarged by a quarter module** -/
theorem in_box (sh : Nat) (st : Bool) (U dx dy : Int) (hU : 0 < U) (h : inShape sh st U dx dy = true) :
    -U ≤ 4 * dx ∧ 4 * dx ≤ 5 * U ∧ -U ≤ 4 * dy ∧ 4 * dy ≤ 5 * U := by
  match sh with
  | 0 => simp only [inShape, decide_eq_true_eq] at h; omega
  | 1 => exact circle_box st U dx dy hU h
  | 2 => exact rounded_box st U dx dy hU h
  | 3 => simp only [inShape, decide_eq_true_eq] at h; omega
  | 4 => simp only [inShape, decide_eq_true_eq] at h; omega
  | n + 5 => simp only [inShape, decide_eq_true_eq] at h; omega

/-- the square is exactly the half-open cell -/
theorem square_iff (st : Bool) (U dx dy : Int) :
    inShape 0 st U dx dy = true ↔ (0 ≤ dx ∧ dx < U ∧ 0 ≤ dy ∧ dy < U) := by
  simp only [inShape, decide_eq_true_eq]

end FastQr.Proofs.RasterGeom
