/- the trap-recording writer monad is a lawful monad -/
import FastQr.Model.Basic
namespace FastQr
open Chk
theorem Chk.ext' {α : Type} (x y : Chk α) (h1 : x.val = y.val) (h2 : x.traps = y.traps) : x = y := by
  cases x; cases y; simp_all

instance : LawfulMonad Chk := LawfulMonad.mk'
  (id_map := by intro α x; apply Chk.ext' <;> simp [Functor.map, bind', pure'])
  (pure_bind := by intro α β x f; rfl)
  (bind_assoc := by intro α β γ x f g; apply Chk.ext' <;> simp [bind, bind', List.append_assoc])
  (bind_pure_comp := by intro α β f x; rfl)
end FastQr
