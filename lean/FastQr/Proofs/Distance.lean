import FastQr.Proofs.Syndromes
/-
C02, recovery capacity: the BCH bound for the Reed-Solomon code with roots alpha^0..alpha^(ec-1) over
GF(256)/0x11D, proved from the shift-and-xor field definition: no zero divisors, alpha has order 255,
a Vandermonde elimination on (coefficient, node) lists, evaluation as a power sum; hence minimum
distance > ec and unique decoding up to floor(ec/2) errors per block.
-/
namespace FastQr.Proofs.Distance
open FastQr Spec Spec.GF Proofs Proofs.Gf Proofs.Division Proofs.Syndromes

/-! ### field facts -/
def powFacts : Bool := (List.range 255).all fun k => alphaPow k != 0 && (k == 0 || alphaPow k != 1)
theorem powFacts_true : powFacts = true := by decide +kernel

theorem alphaPow_ne_zero (k : Nat) : alphaPow k ≠ 0 := by
  rw [← alphaPow_mod]
  have h := powFacts_true
  simp only [powFacts, List.all_eq_true, List.mem_range, Bool.and_eq_true, bne_iff_ne] at h
  exact (h (k % 255) (Nat.mod_lt _ (by decide))).1

theorem alphaPow_ne_one {k : Nat} (h0 : 0 < k) (hk : k < 255) : alphaPow k ≠ 1 := by
  have h := powFacts_true
  simp only [powFacts, List.all_eq_true, List.mem_range, Bool.and_eq_true, bne_iff_ne, Bool.or_eq_true, beq_iff_eq] at h
  have := (h k hk).2
  rcases this with h1 | h1
  · omega
  · exact h1

/-- no zero divisors -/
theorem mul_eq_zero {a b : Nat} (ha : a < 256) (hb : b < 256) (h : mul a b = 0) : a = 0 ∨ b = 0 := by
  by_cases ha0 : a = 0
  · exact Or.inl ha0
  · by_cases hb0 : b = 0
    · exact Or.inr hb0
    · exfalso
      have h1 := byte_is_power (x := a) (by omega) ha
      have h2 := byte_is_power (x := b) (by omega) hb
      rw [h1, h2, alphaPow_add] at h
      exact alphaPow_ne_zero _ h

/-- alpha has order 255 -/
theorem alphaPow_inj {i j : Nat} (hi : i < 255) (hj : j < 255) (h : alphaPow i = alphaPow j) : i = j := by
  have key : ∀ i j, i < j → j < 255 → alphaPow i ≠ alphaPow j := by
    intro i j hij hj h
    have h1 : mul (alphaPow (255 - i)) (alphaPow i) = mul (alphaPow (255 - i)) (alphaPow j) := by rw [h]
    rw [alphaPow_add, alphaPow_add] at h1
    have e1 : 255 - i + i = 255 := by omega
    have e2 : 255 - i + j = 255 + (j - i) := by omega
    rw [e1, e2, alphaPow_255, alphaPow_period] at h1
    exact alphaPow_ne_one (by omega) (by omega) h1.symm
  rcases Nat.lt_trichotomy i j with h1 | h1 | h1
  · exact absurd h (key i j h1 hj)
  · exact h1
  · exact absurd h.symm (key j i h1 hi)

theorem xpow_alpha (i : Nat) : ∀ e, xpow (alphaPow i) e = alphaPow (i * e)
  | 0 => rfl
  | e + 1 => by
    rw [xpow, xpow_alpha i e, alphaPow_add, Nat.mul_succ]

theorem xor_eq_zero {a b : Nat} (h : a ^^^ b = 0) : a = b := by
  have : a ^^^ b ^^^ b = b := by rw [h, Nat.zero_xor]
  rw [Nat.xor_assoc, Nat.xor_self, Nat.xor_zero] at this
  exact this

/-! ### power sums of (coefficient, node) lists and the Vandermonde argument -/

def TB (T : List (Nat × Nat)) : Prop := ∀ t ∈ T, t.1 < 256 ∧ t.2 < 256

/-- Σ d · X^i -/
def PS : List (Nat × Nat) → Nat → Nat
  | [], _ => 0
  | t :: T, i => mul t.1 (xpow t.2 i) ^^^ PS T i

theorem PS_lt : ∀ (T : List (Nat × Nat)) (i : Nat), TB T → PS T i < 256
  | [], _, _ => by show (0 : Nat) < 256; omega
  | t :: T, i, h => xor_lt (mul_lt _ _ (h t (by simp)).1) (PS_lt T i (fun u hu => h u (by simp [hu])))

theorem xor4 (a b c d : Nat) : (a ^^^ b) ^^^ (c ^^^ d) = (a ^^^ c) ^^^ (b ^^^ d) := by ac_rfl

/-- elimination: replacing every coefficient d by d·(X + X0) gives PS(i+1) + X0·PS(i) -/
theorem PS_elim (X0 : Nat) (hX0 : X0 < 256) : ∀ (T : List (Nat × Nat)) (i : Nat), TB T →
    PS (T.map fun t => (mul t.1 (t.2 ^^^ X0), t.2)) i = PS T (i + 1) ^^^ mul X0 (PS T i)
  | [], i, _ => by simp [PS, mul_zero_right]
  | t :: T, i, h => by
    obtain ⟨hd, hX⟩ := h t (by simp)
    have hT : TB T := fun u hu => h u (by simp [hu])
    have ih := PS_elim X0 hX0 T i hT
    simp only [List.map_cons, PS, ih]
    have hp := xpow_lt t.2 i
    -- d (X + X0) X^i = d X^(i+1) + X0 (d X^i)
    have e : mul (mul t.1 (t.2 ^^^ X0)) (xpow t.2 i) =
        mul t.1 (xpow t.2 (i + 1)) ^^^ mul X0 (mul t.1 (xpow t.2 i)) := by
      have e1 : mul (mul t.1 t.2) (xpow t.2 i) = mul t.1 (xpow t.2 (i + 1)) := by
        rw [mul_assoc_bytes hd hX hp, xpow, mul_comm_bytes hX hp]
      have e2 : mul (mul t.1 X0) (xpow t.2 i) = mul X0 (mul t.1 (xpow t.2 i)) := by
        rw [mul_assoc_bytes hd hX0 hp, mul_comm_bytes hX0 hp, ← mul_assoc_bytes hd hp hX0,
          mul_comm_bytes (mul_lt _ _ hd) hX0]
      rw [mul_xor_right, mul_xor_left (mul_lt _ _ hd) (mul_lt _ _ hd) hp, e1, e2]
    rw [e, mul_xor_right]
    exact xor4 _ _ _ _

/-- **Vandermonde**: w terms with pairwise distinct nodes whose first w power sums vanish have all
coefficients zero -/
theorem vandermonde_aux : ∀ (n : Nat) (T : List (Nat × Nat)), T.length = n → TB T → (T.map (·.2)).Nodup →
    (∀ i, i < T.length → PS T i = 0) → ∀ t ∈ T, t.1 = 0
  | _, [], _, _, _, _ => by simp
  | 0, _ :: _, hl, _, _, _ => by simp at hl
  | n + 1, t0 :: T, hl, hB, hnd, hps => by
    obtain ⟨hd0, hX0⟩ := hB t0 (by simp)
    have hT : TB T := fun u hu => hB u (by simp [hu])
    simp only [List.map_cons, List.nodup_cons] at hnd
    -- PS T i = d0 X0^i for i < |T| + 1
    have hrest : ∀ i, i < T.length + 1 → PS T i = mul t0.1 (xpow t0.2 i) := by
      intro i hi
      have := hps i (by simpa using hi)
      simp only [PS] at this
      exact (xor_eq_zero this).symm
    -- the eliminated system
    have hT' : TB (T.map fun t => (mul t.1 (t.2 ^^^ t0.2), t.2)) := by
      intro u hu
      simp only [List.mem_map] at hu
      obtain ⟨t, ht, rfl⟩ := hu
      exact ⟨mul_lt _ _ (hT t ht).1, (hT t ht).2⟩
    have hnd' : ((T.map fun t => (mul t.1 (t.2 ^^^ t0.2), t.2)).map (·.2)).Nodup := by
      rw [List.map_map]; exact hnd.2
    have hps' : ∀ i, i < (T.map fun t => (mul t.1 (t.2 ^^^ t0.2), t.2)).length →
        PS (T.map fun t => (mul t.1 (t.2 ^^^ t0.2), t.2)) i = 0 := by
      intro i hi
      have hi' : i < T.length := by simpa using hi
      rw [PS_elim t0.2 hX0 T i hT, hrest i (by omega), hrest (i + 1) (by omega), xpow]
      have hp := xpow_lt t0.2 i
      rw [← mul_assoc_bytes hd0 hp hX0, mul_comm_bytes hX0 (mul_lt _ _ hd0), Nat.xor_self]
    have ih := vandermonde_aux n _ (by simpa using hl) hT' hnd' hps'
    have hzero : ∀ t ∈ T, t.1 = 0 := by
      intro t ht
      have := ih (mul t.1 (t.2 ^^^ t0.2), t.2) (List.mem_map.mpr ⟨t, ht, rfl⟩)
      simp only at this
      rcases mul_eq_zero (hT t ht).1 (xor_lt (hT t ht).2 hX0) this with h | h
      · exact h
      · exfalso
        apply hnd.1
        rw [← xor_eq_zero h]
        exact List.mem_map.mpr ⟨t, ht, rfl⟩
    -- finally d0 itself, from the 0-th power sum
    have hPS0 : PS T 0 = 0 := by
      have : ∀ (U : List (Nat × Nat)), (∀ t ∈ U, t.1 = 0) → PS U 0 = 0 := by
        intro U hU
        induction U with
        | nil => rfl
        | cons u U ih =>
          simp only [PS, hU u (by simp), mul_zero_left, Nat.zero_xor]
          exact ih (fun t ht => hU t (by simp [ht]))
      exact this T hzero
    have h0 := hrest 0 (by omega)
    rw [hPS0, xpow, mul_comm_bytes hd0 (by decide), mul_one_left hd0] at h0
    intro t ht
    rcases List.mem_cons.mp ht with rfl | ht
    · exact h0.symm
    · exact hzero t ht

theorem vandermonde (T : List (Nat × Nat)) (hB : TB T) (hnd : (T.map (·.2)).Nodup)
    (hps : ∀ i, i < T.length → PS T i = 0) : ∀ t ∈ T, t.1 = 0 := vandermonde_aux T.length T rfl hB hnd hps

/-! ### evaluation of a word at powers of alpha as a power sum -/

theorem hfold_from (x : Nat) (hx : x < 256) (cs : List Nat) (hcs : AllBytes cs) (a : Nat) (ha : a < 256) :
    cs.foldl (hstep x) a = mul a (xpow x cs.length) ^^^ cs.foldl (hstep x) 0 := by
  have h := hfold_xor x hx (List.replicate cs.length 0) cs (by simp) a 0 ha (by decide)
    (by intro c hc; rw [List.mem_replicate] at hc; rw [hc.2]; decide) hcs
  have hz : List.zipWith (· ^^^ ·) (List.replicate cs.length 0) cs = cs := by
    apply List.ext_getElem
    · simp
    · intro i h1 h2; simp
  rw [hz, Nat.xor_zero, hfold_zeros x hx _ a ha] at h
  exact h

theorem eval_cons (x : Nat) (hx : x < 256) (c : Nat) (hc : c < 256) (cs : List Nat) (hcs : AllBytes cs) :
    eval (c :: cs) x = mul c (xpow x cs.length) ^^^ eval cs x := by
  rw [eval_def, List.foldl_cons]
  have : hstep x 0 c = c := by simp [hstep, mul_zero_left]
  rw [this, hfold_from x hx cs hcs c hc, ← eval_def]

/-- the word as (coefficient, alpha^exponent) terms, highest exponent first -/
def terms : List Nat → List (Nat × Nat)
  | [] => []
  | c :: cs => (c, alphaPow cs.length) :: terms cs

theorem terms_TB : ∀ (d : List Nat), AllBytes d → TB (terms d)
  | [], _ => by intro t ht; simp [terms] at ht
  | c :: cs, h => by
    intro t ht
    simp only [terms, List.mem_cons] at ht
    rcases ht with rfl | ht
    · exact ⟨h c (by simp), alphaPow_lt _⟩
    · exact terms_TB cs (fun y hy => h y (by simp [hy])) t ht

theorem eval_PS : ∀ (d : List Nat), AllBytes d → ∀ i, eval d (alphaPow i) = PS (terms d) i
  | [], _, i => rfl
  | c :: cs, h, i => by
    have hcs : AllBytes cs := fun y hy => h y (by simp [hy])
    rw [eval_cons _ (alphaPow_lt i) c (h c (by simp)) cs hcs, eval_PS cs hcs i]
    simp only [terms, PS, xpow_alpha, Nat.mul_comm]

theorem terms_nodes : ∀ (d : List Nat), ∀ x ∈ (terms d).map (·.2), ∃ k, k < d.length ∧ x = alphaPow k
  | [], x, hx => by simp [terms] at hx
  | c :: cs, x, hx => by
    simp only [terms, List.map_cons, List.mem_cons] at hx
    rcases hx with rfl | hx
    · exact ⟨cs.length, by simp, rfl⟩
    · obtain ⟨k, hk, rfl⟩ := terms_nodes cs x hx
      exact ⟨k, by simp; omega, rfl⟩

theorem terms_nodup : ∀ (d : List Nat), d.length ≤ 255 → ((terms d).map (·.2)).Nodup
  | [], _ => by simp [terms]
  | c :: cs, h => by
    simp only [terms, List.map_cons, List.nodup_cons]
    refine ⟨?_, terms_nodup cs (by simp at h; omega)⟩
    intro hin
    obtain ⟨k, hk, he⟩ := terms_nodes cs _ hin
    have := alphaPow_inj (by simp at h; omega) (by simp at h; omega) he
    omega

theorem PS_filter : ∀ (T : List (Nat × Nat)) (i : Nat), PS (T.filter fun t => t.1 != 0) i = PS T i
  | [], _ => rfl
  | t :: T, i => by
    by_cases h : t.1 = 0
    · simp only [List.filter_cons, h, bne_self_eq_false, Bool.false_eq_true, if_false, PS, mul_zero_left, Nat.zero_xor]
      exact PS_filter T i
    · have : (t.1 != 0) = true := by simpa using h
      simp only [List.filter_cons, this, if_true, PS, PS_filter T i]

theorem terms_weight : ∀ (d : List Nat),
    ((terms d).filter fun t => t.1 != 0).length = (d.filter (· != 0)).length
  | [] => rfl
  | c :: cs => by
    simp only [terms, List.filter_cons]
    by_cases h : c = 0
    · simp [h, terms_weight cs]
    · have : (c != 0) = true := by simpa using h
      simp [this, terms_weight cs]

/-- **BCH bound**: a word of at most 255 bytes with `ec` zero syndromes and at most `ec` non-zero
positions is the zero word -/
theorem low_weight_zero (d : List Nat) (hd : AllBytes d) (hlen : d.length ≤ 255) (ec : Nat)
    (hsyn : ∀ i, i < ec → eval d (alphaPow i) = 0) (hw : (d.filter (· != 0)).length ≤ ec) :
    ∀ c ∈ d, c = 0 := by
  have hTB : TB ((terms d).filter fun t => t.1 != 0) := fun t ht => terms_TB d hd t (List.mem_filter.mp ht).1
  have hnd : (((terms d).filter fun t => t.1 != 0).map (·.2)).Nodup :=
    List.Nodup.sublist (List.Sublist.map _ List.filter_sublist) (terms_nodup d hlen)
  have hps : ∀ i, i < ((terms d).filter fun t => t.1 != 0).length →
      PS ((terms d).filter fun t => t.1 != 0) i = 0 := by
    intro i hi
    rw [PS_filter, ← eval_PS d hd i]
    exact hsyn i (by rw [terms_weight] at hi; omega)
  have hall := vandermonde _ hTB hnd hps
  -- every surviving term has a non-zero coefficient, so none survives
  have hempty : (d.filter (· != 0)) = [] := by
    rw [← List.length_eq_zero_iff, ← terms_weight, List.length_eq_zero_iff, List.eq_nil_iff_forall_not_mem]
    intro t ht
    have h1 := hall t ht
    have h2 := (List.mem_filter.mp ht).2
    simp [h1] at h2
  intro c hc
  apply Decidable.byContradiction
  intro hne
  have : c ∈ d.filter (· != 0) := List.mem_filter.mpr ⟨hc, by simpa using hne⟩
  rw [hempty] at this
  simp at this

/-! ### Hamming distance, minimum distance, unique decoding -/

/-- number of positions where two words of equal length differ -/
def dist (u w : List Nat) : Nat := ((List.zipWith (· ^^^ ·) u w).filter (· != 0)).length

def Codeword (ec : Nat) (w : List Nat) : Prop := AllBytes w ∧ ∀ i, i < ec → eval w (alphaPow i) = 0

theorem zipxor_bytes : ∀ (u w : List Nat), AllBytes u → AllBytes w → AllBytes (List.zipWith (· ^^^ ·) u w)
  | [], _, _, _ => by intro c hc; simp at hc
  | _ :: _, [], _, _ => by intro c hc; simp at hc
  | a :: u, b :: w, hu, hw => by
    intro c hc
    simp only [List.zipWith_cons_cons, List.mem_cons] at hc
    rcases hc with rfl | hc
    · exact xor_lt (hu a (by simp)) (hw b (by simp))
    · exact zipxor_bytes u w (fun y hy => hu y (by simp [hy])) (fun y hy => hw y (by simp [hy])) c hc

theorem eq_of_zipxor_zero : ∀ (u w : List Nat), u.length = w.length →
    (∀ c ∈ List.zipWith (· ^^^ ·) u w, c = 0) → u = w
  | [], [], _, _ => rfl
  | [], _ :: _, h, _ => by simp at h
  | _ :: _, [], h, _ => by simp at h
  | a :: u, b :: w, hl, hz => by
    have h1 := hz (a ^^^ b) (by simp)
    have h2 := eq_of_zipxor_zero u w (by simpa using hl) (fun c hc => hz c (by simp [hc]))
    rw [xor_eq_zero h1, h2]

/-- **minimum distance > ec**: two codewords of the same length ≤ 255 that differ in at most `ec`
positions are equal -/
theorem codeword_unique (ec : Nat) (u w : List Nat) (hu : Codeword ec u) (hw : Codeword ec w)
    (hlen : u.length = w.length) (h255 : u.length ≤ 255) (hd : dist u w ≤ ec) : u = w := by
  apply eq_of_zipxor_zero u w hlen
  apply low_weight_zero _ (zipxor_bytes u w hu.1 hw.1) (by simp; omega) ec _ hd
  intro i hi
  have h := hfold_xor (alphaPow i) (alphaPow_lt i) u w hlen 0 0 (by decide) (by decide) hu.1 hw.1
  have h00 : (0 ^^^ 0 : Nat) = 0 := rfl
  rw [h00, ← eval_def, ← eval_def, ← eval_def, hu.2 i hi, hw.2 i hi] at h
  exact h

theorem dist_comm : ∀ (u w : List Nat), dist u w = dist w u
  | [], [] => rfl
  | [], _ :: _ => by simp [dist]
  | _ :: _, [] => by simp [dist]
  | a :: u, b :: w => by
    have ih := dist_comm u w
    simp only [dist, List.zipWith_cons_cons, List.filter_cons] at ih ⊢
    rw [Nat.xor_comm a b]
    split <;> simp [ih]

theorem dist_cons (a b : Nat) (u w : List Nat) :
    dist (a :: u) (b :: w) = (if a = b then 0 else 1) + dist u w := by
  simp only [dist, List.zipWith_cons_cons, List.filter_cons]
  by_cases h : a = b
  · subst h; simp
  · have : (a ^^^ b != 0) = true := by
      simp only [bne_iff_ne, ne_eq]
      intro hh; exact h (xor_eq_zero hh)
    simp [this, h]; omega

theorem dist_triangle : ∀ (u r w : List Nat), u.length = r.length → r.length = w.length →
    dist u w ≤ dist u r + dist r w
  | [], [], [], _, _ => by simp [dist]
  | a :: u, b :: r, c :: w, h1, h2 => by
    have ih := dist_triangle u r w (by simpa using h1) (by simpa using h2)
    rw [dist_cons, dist_cons, dist_cons]
    by_cases hab : a = b <;> by_cases hbc : b = c <;> by_cases hac : a = c <;> simp [hab, hbc, hac] <;> omega
  | [], _ :: _, _, h, _ => by simp at h
  | _ :: _, [], _, h, _ => by simp at h
  | [], [], _ :: _, _, h => by simp at h
  | _ :: _, _ :: _, [], _, h => by simp at h

/-- **unique decoding up to ⌊ec/2⌋ errors**: if the received word `rx` is within ⌊ec/2⌋ of the
codeword `c`, then `c` is the ONLY codeword within ⌊ec/2⌋ of `rx` — so any bounded-distance decoder
(Berlekamp-Massey / Euclid + Chien + Forney, as in every standard reader) returns `c` -/
theorem unique_decoding (ec : Nat) (c c' rx : List Nat) (hc : Codeword ec c) (hc' : Codeword ec c')
    (hl : c.length = rx.length) (hl' : c'.length = rx.length) (h255 : c.length ≤ 255)
    (herr : dist c rx ≤ ec / 2) (hnear : dist c' rx ≤ ec / 2) : c' = c := by
  have ht := dist_triangle c rx c' hl hl'.symm
  rw [dist_comm rx c'] at ht
  exact (codeword_unique ec c c' hc hc' (by omega) h255 (by omega)).symm
end FastQr.Proofs.Distance
