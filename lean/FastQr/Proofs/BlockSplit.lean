import FastQr.Proofs.EcPart
/-
C02 stage: ISO Table 9 de-interleaving applied to a sequence laid out by `polynomials::structure`
returns, block by block, the crate's data slice and that block's EC codewords (tier N `ecLayoutOk`).
-/
namespace FastQr.Proofs.BlockSplit
open FastQr Model Spec Finite Proofs Proofs.StructureSound Proofs.EcPart

theorem ecLayoutOk_of {v : Nat} (hv : v < 40) (l : ECL) : ecLayoutOk l v = true :=
  all_range (all_ecl ecLayoutOk_all l) v hv

/-- Table 9 block offsets / sizes as the crate computes them -/
theorem block_geometry {v : Nat} (hv : v < 40) (l : ECL) {b : Nat} (hb : b < nbOf l v) :
    blockOffset (Decode.blockSizes v l) b = offB l v b ∧ (Decode.blockSizes v l).getD b 0 = szB l v b := by
  have hok := interleaveOk_of hv l
  simp only [interleaveOk, Bool.and_eq_true, beq_iff_eq, decide_eq_true_eq, and_assoc, List.all_eq_true, List.mem_range] at hok
  obtain ⟨_, _, _, _, _, _, _, _, ho1, ho2, hs1, hs2⟩ := hok
  simp only [offB, szB]
  by_cases hg : b < (T.groups l v).1
  · simp only [hg, if_true]
    exact ⟨(ho1 b hg).symm, hs1 b hg⟩
  · have hi : b - (T.groups l v).1 < (T.groups l v).2.2.1 := by simp only [nbOf] at hb; omega
    have e : b - (T.groups l v).1 + (T.groups l v).1 = b := by omega
    have h1 := ho2 _ hi
    have h2 := hs2 _ hi
    rw [e] at h1 h2
    simp only [hg, if_false]
    exact ⟨h1.symm, h2⟩

/-- **C02 (block split)**: ISO de-interleaving of a sequence laid out by the crate returns, per block,
the crate's data slice and that block's EC codewords -/
theorem deinterleave_blocks {v : Nat} (hv : v < 40) (l : ECL) (cw data : Array Nat) (ecv : Nat → Nat → Nat)
    (hcw : ∀ k, k < T.dataCodewords l v → cw.getD k 0 =
      data.getD ((dataIdxs (T.groups l v).1 (T.groups l v).2.1 (T.groups l v).2.2.1 (T.groups l v).2.2.2).getD k
        (T.dataCodewords l v)) 0)
    (hec : ∀ b, b < nbOf l v → ∀ j, j < ecLen l v → cw.getD (T.dataCodewords l v + j * nbOf l v + b) 0 = ecv b j) :
    Decode.deinterleave v l cw = (List.range (nbOf l v)).map fun b =>
      (blkVals data (offB l v b) (szB l v b), (List.range (ecLen l v)).map (ecv b)) := by
  have hok := interleaveOk_of hv l
  simp only [interleaveOk, Bool.and_eq_true, beq_iff_eq, decide_eq_true_eq, and_assoc] at hok
  obtain ⟨hlen, _, hnb, hecl, _⟩ := hok
  have hlo := ecLayoutOk_of hv l
  simp only [ecLayoutOk, Bool.and_eq_true, beq_iff_eq, decide_eq_true_eq, List.all_eq_true, List.mem_range, and_assoc] at hlo
  obtain ⟨htotal, hper⟩ := hlo
  have hnb' : (Decode.blockSizes v l).length = nbOf l v := hnb
  have hecl' : Decode.ecLen v l = ecLen l v := hecl
  generalize hidx : dataIdxs (T.groups l v).1 (T.groups l v).2.1 (T.groups l v).2.2.1 (T.groups l v).2.2.2 = idxs at *
  simp only [Decode.deinterleave, hnb', hecl', htotal]
  apply List.map_congr_left
  intro b hb
  have hb' : b < nbOf l v := List.mem_range.mp hb
  obtain ⟨hpos, hle, hdat⟩ := hper b (by rw [hnb']; exact hb')
  obtain ⟨hoff, hsz⟩ := block_geometry hv l hb'
  rw [hnb', hecl'] at hpos
  rw [Prod.mk.injEq]
  constructor
  · -- data codewords of the block
    have hk : ∀ k ∈ Decode.blockPositions (Decode.blockSizes v l) b, k < T.dataCodewords l v := by
      intro k hk
      have hm : idxs.getD k (T.dataCodewords l v) ∈
          (Decode.blockPositions (Decode.blockSizes v l) b).map fun k => idxs.getD k (T.dataCodewords l v) :=
        List.mem_map.mpr ⟨k, hk, rfl⟩
      rw [hdat, List.mem_map] at hm
      obtain ⟨i, hi, he⟩ := hm
      have hi' := List.mem_range.mp hi
      apply Decidable.byContradiction
      intro hn
      rw [List.getD_eq_getElem?_getD, List.getElem?_eq_none (by omega)] at he
      simp at he
      omega
    have h1 : (Decode.blockPositions (Decode.blockSizes v l) b).map (fun k => cw.getD k 0) =
        ((Decode.blockPositions (Decode.blockSizes v l) b).map fun k => idxs.getD k (T.dataCodewords l v)).map
          (fun i => data.getD i 0) := by
      rw [List.map_map]
      apply List.map_congr_left
      intro k hk'
      exact hcw k (hk k hk')
    rw [h1, hdat, List.map_map, hoff, hsz]
    rfl
  · rw [hpos, List.map_map]
    apply List.map_congr_left
    intro j hj
    have := hec b hb' j (List.mem_range.mp hj)
    simp only [Function.comp]
    rw [← this, Nat.add_assoc]
end FastQr.Proofs.BlockSplit
