/-
A deterministic recogniser for the XML subset an SVG rendering may use (elements and double-quoted
attributes only, no text nodes), with entity un-escaping, and the reading of a rendering demanded
by property C12. Independent of the crate and of the model.
-/
namespace FastQr.Spec.SvgParse

/-- element kinds: opening tag, self-closing tag, closing tag -/
inductive Kind where
  | opening | selfClosing | closing
  deriving DecidableEq, Repr, Inhabited

structure Tag where
  name : String
  attrs : List (String × String)
  kind : Kind
  deriving Repr, Inhabited

def isNameChar (c : Char) : Bool := c.isAlphanum || c == ':' || c == '-' || c == '_'

/-- un-escapes an attribute value; `none` if it contains `<` or an `&` that does not start one of the
five predefined entities -/
def unescape : List Char → Option (List Char)
  | [] => some []
  | '&' :: 'a' :: 'm' :: 'p' :: ';' :: r => (unescape r).map ('&' :: ·)
  | '&' :: 'l' :: 't' :: ';' :: r => (unescape r).map ('<' :: ·)
  | '&' :: 'g' :: 't' :: ';' :: r => (unescape r).map ('>' :: ·)
  | '&' :: 'q' :: 'u' :: 'o' :: 't' :: ';' :: r => (unescape r).map ('"' :: ·)
  | '&' :: 'a' :: 'p' :: 'o' :: 's' :: ';' :: r => (unescape r).map ('\'' :: ·)
  | '&' :: _ => none
  | '<' :: _ => none
  | c :: r => (unescape r).map (c :: ·)

def skipSpaces : List Char → List Char
  | ' ' :: r => skipSpaces r
  | r => r

def takeName (s : List Char) : List Char × List Char := (s.takeWhile isNameChar, s.dropWhile isNameChar)

/-- attributes up to the end of the tag: returns (attrs, selfClosing?, rest) -/
def parseAttrs : Nat → List Char → List (String × String) → Option (List (String × String) × Bool × List Char)
  | 0, _, _ => none
  | fuel + 1, s, acc =>
    match skipSpaces s with
    | '/' :: '>' :: r => some (acc.reverse, true, r)
    | '>' :: r => some (acc.reverse, false, r)
    | s' =>
      let (nm, r) := takeName s'
      if nm.isEmpty then none else
      match r with
      | '=' :: '"' :: r2 =>
        let raw := r2.takeWhile (· != '"')
        match r2.dropWhile (· != '"') with
        | '"' :: r3 =>
          match unescape raw with
          | none => none
          | some v =>
            if acc.any (·.1 == String.ofList nm) then none     -- duplicate attribute
            else parseAttrs fuel r3 ((String.ofList nm, String.ofList v) :: acc)
        | _ => none
      | _ => none

/-- the sequence of tags of a document without text nodes -/
def tags : Nat → List Char → List Tag → Option (List Tag)
  | 0, _, _ => none
  | _, [], acc => some acc.reverse
  | fuel + 1, '<' :: '/' :: r, acc =>
    let (nm, r2) := takeName r
    if nm.isEmpty then none else
    match r2 with
    | '>' :: r3 => tags fuel r3 (⟨String.ofList nm, [], .closing⟩ :: acc)
    | _ => none
  | fuel + 1, '<' :: r, acc =>
    let (nm, r2) := takeName r
    if nm.isEmpty then none else
    match parseAttrs (r2.length + 1) r2 [] with
    | none => none
    | some (attrs, selfc, r3) =>
      tags fuel r3 (⟨String.ofList nm, attrs, if selfc then .selfClosing else .opening⟩ :: acc)
  | _, _, _ => none

def attr (t : Tag) (k : String) : Option String := (t.attrs.find? (·.1 == k)).map (·.2)

/-- well-formed: one root element whose children are all self-closing -/
def wellFormed (s : String) : Option (Tag × List Tag) :=
  match tags (s.length + 1) s.toList [] with
  | none => none
  | some ts =>
    match ts with
    | root :: rest =>
      match rest.getLast? with
      | some last =>
        let children := rest.dropLast
        if root.kind == .opening ∧ last.kind == .closing ∧ last.name == root.name ∧
            children.all (·.kind == .selfClosing) then some (root, children) else none
      | none => none
    | [] => none

/-! ### path data -/

/-- decimal number: integer digits and optional fraction; returns (integer part, has fraction?, rest) -/
def number (s : List Char) : Option (Nat × Bool × List Char) :=
  let ds := s.takeWhile Char.isDigit
  let r := s.dropWhile Char.isDigit
  let int := ds.foldl (fun a c => 10 * a + (c.toNat - 48)) 0
  match r with
  | '.' :: r2 =>
    let fs := r2.takeWhile Char.isDigit
    if ds.isEmpty ∧ fs.isEmpty then none else some (int, !fs.isEmpty, r2.dropWhile Char.isDigit)
  | _ => if ds.isEmpty then none else some (int, false, r)

/-- the cell (column, row) a sub-path (the text after its `M`) is anchored at: the cell containing
its start point, except that a sub-path starting with an arc is anchored at its rightmost point,
i.e. on the right edge of its cell -/
def anchor (sub : List Char) : Option (Nat × Nat) :=
  match number sub with
  | some (x, xfrac, ',' :: r) =>
    match number r with
    | some (y, _, r2) =>
      if !xfrac ∧ r2.head? == some 'a' then (if x ≥ 1 then some (x - 1, y) else none) else some (x, y)
    | none => none
  | _ => none

/-- the pieces of a text between its `M` characters (the first piece is what precedes the first `M`) -/
def splitOnM : List Char → List (List Char)
  | [] => [[]]
  | c :: r =>
    if c = 'M' then [] :: splitOnM r
    else match splitOnM r with
      | p :: ps => (c :: p) :: ps
      | [] => [[c]]

/-- sub-paths of a `d` attribute: the pieces after each absolute `M` -/
def subPathsL (d : List Char) : Option (List (List Char)) :=
  match d with
  | [] => some []
  | 'M' :: _ =>
    let pieces := splitOnM d
    -- first piece is the empty text before the first M
    if (pieces.drop 1).any (fun p => p.any (fun c => c == 'm')) then none else some (pieces.drop 1)
  | _ => none

def subPaths (d : String) : Option (List (List Char)) := subPathsL d.toList

def cellsOf (d : String) : Option (List (Nat × Nat)) :=
  match subPaths d with
  | none => none
  | some subs => subs.mapM anchor

/-! ### the reading demanded by C12 -/

structure Expect where
  n : Nat
  margin : Nat
  dark : Nat → Nat → Bool
  background : String
  /-- colour of each layer -/
  layerColors : List String
  image : Option String

def expectedCells (e : Expect) : List (Nat × Nat) :=
  (List.range e.n).flatMap fun r => (List.range e.n).filterMap fun c =>
    if e.dark r c then some (c + e.margin, r + e.margin) else none

/-- one shape layer: a path filled (and, if stroked, stroked) with the layer's colour whose sub-paths are
exactly the expected cells -/
def layerCheck (cells : List (Nat × Nat)) (pc : Tag × String) : Option String :=
  let p := pc.1
  let col := pc.2
  if p.name != "path" then some "layer-is-not-a-path"
  else if attr p "fill" != some col then some "layer-fill-colour"
  else if (attr p "stroke").isSome ∧ attr p "stroke" != some col then some "layer-stroke-colour"
  else match attr p "d" with
    | none => some "path-without-d"
    | some d =>
      match cellsOf d with
      | none => some "unreadable-path-data"
      | some cs => if cs == cells then none else some "sub-paths-are-not-exactly-the-dark-modules"

/-- what follows the layers: nothing, or the frame rectangle and one image element carrying the reference -/
def tailCheck (image : Option String) (tail : List Tag) : Option String :=
  match image, tail with
  | none, [] => none
  | none, _ => some "unexpected-elements-after-the-layers"
  | some img, [frame, im] =>
    if frame.name != "rect" then some "frame-is-not-a-rect"
    else if im.name != "image" then some "no-image-element"
    else if attr im "href" != some img then some "href-is-not-the-image-reference"
    else none
  | some _, _ => some "image-elements"

/-- verdict on a rendering: `none` = conforms -/
def check (e : Expect) (s : String) : Option String :=
  match wellFormed s with
  | none => some "not-well-formed"
  | some (root, children) =>
    let side := toString (e.n + 2 * e.margin)
    if root.name != "svg" then some "root-is-not-svg"
    else if attr root "viewBox" != some s!"0 0 {side} {side}" then some "viewBox"
    else
    match children with
    | [] => some "no-background-rect"
    | bg :: rest =>
      if bg.name != "rect" ∨ attr bg "width" != some (side ++ "px") ∨ attr bg "height" != some (side ++ "px")
          ∨ attr bg "fill" != some e.background then some "background-rect"
      else
      let nl := e.layerColors.length
      let paths := rest.take nl
      let tail := rest.drop nl
      if paths.length != nl then some "missing-layer" else
      match (paths.zip e.layerColors).findSome? (layerCheck (expectedCells e)) with
      | some err => some err
      | none => tailCheck e.image tail

end FastQr.Spec.SvgParse
