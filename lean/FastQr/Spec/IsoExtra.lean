/- ISO/IEC 18004 Table 1: remainder bits per version (0-based index). -/
namespace FastQr.Spec.Iso

def remainderBits (v : Nat) : Nat :=
  if v == 0 then 0 else if v ≤ 5 then 7 else if v ≤ 12 then 0 else if v ≤ 19 then 3
  else if v ≤ 26 then 4 else if v ≤ 33 then 3 else 0

end FastQr.Spec.Iso
