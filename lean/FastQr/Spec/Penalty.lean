/-
The penalty the crate documents for a mask candidate (src/score.rs doc comment, property C11),
written declaratively over rows of (dark?, inEncodingRegion?) pairs:
* 40 for every window of 7 consecutive encoding-region modules reading 1011101,
* N-2 for every maximal run of N >= 5 consecutive encoding-region modules of equal value,
  along every row and every column,
* 3 for every 2x2 block of four encoding-region modules of equal value,
* 10 for every 5% step of the dark-module percentage (all modules, rounded down) away from 50%:
  the band 45..54 costs 0, 40..44 and 55..59 cost 10, and so on.
Independent of the model.
-/
import FastQr.Spec.Grid

namespace FastQr.Spec.Penalty

abbrev Cell := Bool × Bool      -- (dark, isData)

def pen (n : Nat) : Nat := if n ≥ 5 then n - 2 else 0

/-- runs: carries the open run (value, length) -/
def runsAux : Option (Bool × Nat) → List Cell → Nat
  | none, [] => 0
  | some (_, n), [] => pen n
  | none, c :: cs => if c.2 then runsAux (some (c.1, 1)) cs else runsAux none cs
  | some (v, n), c :: cs =>
    if c.2 then (if c.1 = v then runsAux (some (v, n + 1)) cs else pen n + runsAux (some (c.1, 1)) cs)
    else pen n + runsAux none cs

def runs (l : List Cell) : Nat := runsAux none l

def window : List Bool := [true, false, true, true, true, false, true]

/-- number of positions where 7 consecutive modules are all encoding-region and read 1011101 -/
def windows : List Cell → Nat
  | [] => 0
  | c :: cs =>
    let w := (c :: cs).take 7
    (if w.length = 7 ∧ w.all (·.2) ∧ w.map (·.1) = window then 40 else 0) + windows cs

def rowCells (g : Grid) (r : Nat) : List Cell := (List.range g.n).map fun c => (g.dark r c, g.label r c == 0)
def colCells (g : Grid) (c : Nat) : List Cell := (List.range g.n).map fun r => (g.dark r c, g.label r c == 0)

def blocks (g : Grid) : Nat :=
  (List.range (g.n - 1)).foldl (fun acc r =>
    (List.range (g.n - 1)).foldl (fun acc c =>
      let allData := g.label r c == 0 && g.label r (c + 1) == 0 && g.label (r + 1) c == 0 && g.label (r + 1) (c + 1) == 0
      let v := g.dark r c
      if allData && g.dark r (c + 1) == v && g.dark (r + 1) c == v && g.dark (r + 1) (c + 1) == v
      then acc + 3 else acc) acc) 0

def darkCount (g : Grid) : Nat := g.a.foldl (fun acc b => if b % 2 == 1 then acc + 1 else acc) 0

def ratio (g : Grid) : Nat :=
  let pct := darkCount g * 100 / (g.n * g.n)
  10 * (if pct ≥ 50 then (pct - 50) / 5 else (49 - pct) / 5)

def total (g : Grid) : Nat :=
  (List.range g.n).foldl (fun acc i =>
    acc + runs (rowCells g i) + windows (rowCells g i) + runs (colCells g i) + windows (colCells g i)) 0
  + blocks g + ratio g

end FastQr.Spec.Penalty
