/-
An IDEAL rasteriser for the SVG subset a QR rendering uses: what a conforming renderer shows at the
CENTRE of each pixel, computed exactly in integer arithmetic. Independent of the crate and of the model;
it reads the document with `Spec.SvgParse` and understands exactly six sub-path texts.

Geometry. A pixmap of `W x W` pixels shows the user-space square `[0, S]²`. The centre of pixel
`(px, py)` is the user-space point `((2px+1)·S / 2W, (2py+1)·S / 2W)`. Everything is scaled by `40·W`
(so that one module is `U = 40·W` units and every coordinate the six shapes use — multiples of 1/20 of a
module — is an integer): the pixel centre is `(20·S·(2px+1), 20·S·(2py+1))`.

The six shapes, for the cell whose top-left corner is `(x, y)` (`dx`, `dy` relative to `U·(x, y)`):
  0 square          `M x,y h1 v1 h-1`                       `[0,1) x [0,1)`
  1 circle          `M x+1,y.5 a.5,.5 0 1,1 0,-.1`          the disc of radius .5 through (1,.5) and (1,.4) whose
                                                           centre lies to the left, cut at the chord x = 1
  2 rounded square  `M x.2,y.2 x.8,y.2 x.8,y.8 x.2,y.8 z`   `[.2,.8]²`; when stroked with width .3 and round joins:
                                                           every point within .15 of it
  3 vertical bar    `M x.1,y h.8 v1 h-.8`                   `[.1,.9] x [0,1]`
  4 horizontal bar  `M x,y.1 h1 v.8 h-1`                    `[0,1] x [.1,.9]`
  5 diamond         `M x.5,y l.5,.5 l-.5,.5 l-.5,-.5 z`     `|dx-.5| + |dy-.5| <= .5`
Painter's order: the background rectangle, then each `path` element in document order.
-/
import FastQr.Spec.SvgParse

namespace FastQr.Spec.Raster
open FastQr.Spec.SvgParse

def dig (n : Nat) : List Char := Nat.toDigits 10 n

/-- the six sub-path texts (what follows the `M`) -/
def canon (shape x y : Nat) : List Char :=
  match shape with
  | 0 => dig x ++ ",".toList ++ dig y ++ "h1v1h-1".toList
  | 1 => dig (x + 1) ++ ",".toList ++ dig y ++ ".5a.5,.5 0 1,1 0,-.1".toList
  | 2 => dig x ++ ".2,".toList ++ dig y ++ ".2 ".toList ++ dig x ++ ".8,".toList ++ dig y ++ ".2 ".toList ++
          dig x ++ ".8,".toList ++ dig y ++ ".8 ".toList ++ dig x ++ ".2,".toList ++ dig y ++ ".8z".toList
  | 3 => dig x ++ ".1,".toList ++ dig y ++ "h.8v1h-.8".toList
  | 4 => dig x ++ ",".toList ++ dig y ++ ".1h1v.8h-1".toList
  | _ => dig x ++ ".5,".toList ++ dig y ++ "l.5,.5l-.5,.5l-.5,-.5z".toList

/-- which of the six texts a sub-path can be, from how its first two numbers are written and what follows them:
(shape, x) for first number `a` -/
def guess (fx fy : Bool) (c : Char) (a : Nat) : Option (Nat × Nat) :=
  match fx, fy, c with
  | false, false, 'h' => some (0, a)
  | false, true, 'a' => if a ≥ 1 then some (1, a - 1) else none
  | true, true, ' ' => some (2, a)
  | true, false, 'h' => some (3, a)
  | false, true, 'h' => some (4, a)
  | true, false, 'l' => some (5, a)
  | _, _, _ => none

/-- reads one sub-path: (shape, x, y) of the cell it draws; `none` if it is not one of the six texts -/
def readSub (sub : List Char) : Option (Nat × Nat × Nat) :=
  match number sub with
  | some (a, fx, ',' :: r) =>
    match number r with
    | some (b, fy, c :: _) =>
      match guess fx fy c a with
      | some (sh, x) => if canon sh x b = sub then some (sh, x, b) else none
      | none => none
    | _ => none
  | _ => none

/-- is the point `(dx, dy)` (relative to the cell's corner, one module = `U`) inside the shape? -/
def inShape (shape : Nat) (stroked : Bool) (U dx dy : Int) : Bool :=
  match shape with
  | 0 => decide (0 ≤ dx ∧ dx < U ∧ 0 ≤ dy ∧ dy < U)
  | 1 =>
    let u := 20 * dx - 20 * U
    let e := 20 * dy - 9 * U
    let K := U * U - u * u - e * e
    decide (u ≤ 0 ∧ (0 ≤ K ∨ K * K ≤ 396 * (u * u) * (U * U)))
  | 2 =>
    let a := 20 * dx
    let b := 20 * dy
    let ex := max 0 (max (4 * U - a) (a - 16 * U))
    let ey := max 0 (max (4 * U - b) (b - 16 * U))
    decide (ex * ex + ey * ey ≤ (if stroked then 9 * (U * U) else 0))
  | 3 => decide (U ≤ 10 * dx ∧ 10 * dx ≤ 9 * U ∧ 0 ≤ dy ∧ dy ≤ U)
  | 4 => decide (0 ≤ dx ∧ dx ≤ U ∧ U ≤ 10 * dy ∧ 10 * dy ≤ 9 * U)
  | _ => decide ((2 * dx - U).natAbs + (2 * dy - U).natAbs ≤ U.natAbs)

structure Layer where
  colour : String
  stroked : Bool
  subs : List (Nat × Nat × Nat)

structure Scene where
  background : String
  layers : List Layer

/-- a `path` element as a layer: fill colour, optional stroke (only width .3 with round joins in the fill
colour is understood, and only on rounded squares), sub-paths -/
def layerOf (p : Tag) : Option Layer :=
  if p.name != "path" then none else
  match attr p "fill", attr p "d" with
  | some col, some d =>
    let stroked? : Option Bool :=
      match attr p "stroke", attr p "stroke-width", attr p "stroke-linejoin" with
      | none, none, none => some false
      | some sc, some ".3", some "round" => if sc = col then some true else none
      | _, _, _ => none
    match stroked?, subPaths d with
    | some st, some subs =>
      match subs.mapM readSub with
      | some cells => if st ∧ cells.any (fun c => c.1 != 2) then none else some ⟨col, st, cells⟩
      | none => none
    | _, _ => none
  | _, _ => none

/-- the scene of a document showing the user square of side `S` -/
def sceneOf (s : String) (S : Nat) : Option Scene :=
  match wellFormed s with
  | none => none
  | some (root, children) =>
    let side := toString S
    if root.name != "svg" ∨ attr root "viewBox" != some s!"0 0 {side} {side}" then none else
    match children with
    | [] => none
    | bg :: rest =>
      if bg.name != "rect" ∨ attr bg "width" != some (side ++ "px") ∨ attr bg "height" != some (side ++ "px") then none else
      match attr bg "fill", rest.mapM layerOf with
      | some col, some ls => some ⟨col, ls⟩
      | _, _ => none

def covers (U X Y : Int) (stroked : Bool) (c : Nat × Nat × Nat) : Bool :=
  inShape c.1 stroked U (X - U * c.2.1) (Y - U * c.2.2)

/-- the colour an ideal renderer shows at the centre of pixel `(px, py)` of a `W x W` pixmap of the user
square of side `S` -/
def paintAt (sc : Scene) (U X Y : Int) : String :=
  sc.layers.foldl (fun col L => if L.subs.any (covers U X Y L.stroked) then L.colour else col) sc.background

def paint (sc : Scene) (S W px py : Nat) : String :=
  paintAt sc (40 * W) (20 * S * (2 * px + 1)) (20 * S * (2 * py + 1))

/-- the pixel that contains the centre of cell `c` -/
def centrePixel (S W c : Nat) : Nat := ((2 * c + 1) * W) / (2 * S)

end FastQr.Spec.Raster
