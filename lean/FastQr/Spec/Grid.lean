/-
The observed symbol on the specification side: side length and one number per module in row-major
order (bit 0 = dark, the remaining bits = the public type label as reported by `module_type()`:
0 data, 1 finder, 2 alignment, 3 timing, 4 format, 5 version, 6 dark module, 7 empty/separator).
Independent of the model.
-/
namespace FastQr.Spec

structure Grid where
  n : Nat
  a : Array Nat
  deriving Inhabited

namespace Grid
@[inline] def raw (g : Grid) (r c : Nat) : Nat := g.a.getD (r * g.n + c) 0
@[inline] def dark (g : Grid) (r c : Nat) : Bool := g.raw r c % 2 == 1
@[inline] def label (g : Grid) (r c : Nat) : Nat := g.raw r c / 2
/-- ISO version index (0-based) of a symbol of this side, if legal -/
def version? (g : Grid) : Option Nat :=
  if g.n ≥ 21 ∧ (g.n - 21) % 4 = 0 ∧ (g.n - 21) / 4 < 40 ∧ g.a.size = g.n * g.n then some ((g.n - 21) / 4) else none
/-- coordinate given as in Figures 25/26: negative = counted from the far edge -/
@[inline] def rel (g : Grid) (k : Int) : Nat := if k < 0 then g.n - k.natAbs else k.natAbs
end Grid

end FastQr.Spec
