/-
BCH(15,5) format information and BCH(18,6) version information (ISO/IEC 18004 Annex C and D),
by GF(2) polynomial long division on natural numbers.
-/
import FastQr.Types
namespace FastQr.Spec.BCH

def bitLen : Nat → Nat := Nat.log2 ∘ (· * 2)   -- number of bits of n (0 for 0)

/-- remainder of `a` modulo `g` over GF(2) -/
def polyMod (a g : Nat) : Nat :=
  (List.range 32).foldl (fun a _ =>
    if a ≠ 0 ∧ Nat.log2 a ≥ Nat.log2 g then a ^^^ (g <<< (Nat.log2 a - Nat.log2 g)) else a) a

/-- level indicator bits: L 01, M 00, Q 11, H 10 -/
def eclBits : ECL → Nat
  | .L => 1 | .M => 0 | .Q => 3 | .H => 2

/-- 15-bit format information of (level, mask): BCH with generator 10100110111, XOR 101010000010010 -/
def format15 (l : ECL) (mask : Nat) : Nat :=
  let d := eclBits l <<< 3 ||| mask
  ((d <<< 10) ||| polyMod (d <<< 10) 0x537) ^^^ 0x5412

/-- 18-bit version information of ISO version number `num` (7..40): generator 1111100100101 -/
def version18 (num : Nat) : Nat := (num <<< 12) ||| polyMod (num <<< 12) 0x1F25

end FastQr.Spec.BCH
