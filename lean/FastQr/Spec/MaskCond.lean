/- ISO/IEC 18004 Table 10: data mask pattern conditions (i = row, j = column). -/
namespace FastQr.Spec

def maskCond (m i j : Nat) : Bool :=
  match m with
  | 0 => (i + j) % 2 == 0
  | 1 => i % 2 == 0
  | 2 => j % 3 == 0
  | 3 => (i + j) % 3 == 0
  | 4 => (i / 2 + j / 3) % 2 == 0
  | 5 => (i * j) % 2 + (i * j) % 3 == 0
  | 6 => ((i * j) % 2 + (i * j) % 3) % 2 == 0
  | _ => ((i + j) % 2 + (i * j) % 3) % 2 == 0

end FastQr.Spec
