/-
Reading a terminal rendering back (property C16): each character is a (top, bottom) pair of
modules — space = both dark, full block = both light, upper half block = top light / bottom dark
(the glyph paints the LIGHT half), lower half block = top dark / bottom light.
-/
namespace FastQr.Spec.TermDecode

/-- (top dark?, bottom dark?) -/
def pair (ch : Char) : Option (Bool × Bool) :=
  if ch = ' ' then some (true, true)
  else if ch = '█' then some (false, false)
  else if ch = '▀' then some (false, true)
  else if ch = '▄' then some (true, false)
  else none

def decodeLine : List Char → Option (List (Bool × Bool))
  | [] => some []
  | ch :: rest =>
    match pair ch, decodeLine rest with
    | some p, some ps => some (p :: ps)
    | _, _ => none

/-- the rows of modules encoded by the text lines: line k gives rows 2k and 2k+1; `none` if a
character is outside the four-glyph alphabet -/
def rows (lines : List (List Char)) : Option (List (List Bool)) :=
  lines.foldr (fun l acc =>
    match acc, decodeLine l with
    | some rest, some ps => some (ps.map (·.1) :: ps.map (·.2) :: rest)
    | _, _ => none) (some [])

/-- what the rendering of an `n x n` matrix `dark` must decode to: row 0 is the upper half of the
first text line (terminal background, not constrained), then a light border row, the matrix rows
between light border columns, and a light border row -/
def expected (n : Nat) (dark : Nat → Nat → Bool) : List (List Bool) :=
  [List.replicate (n + 2) false] ++
  ((List.range n).map fun r => false :: (List.range n).map (dark r) ++ [false]) ++
  [List.replicate (n + 2) false]

/-- verdict: shape, alphabet and content -/
def check (n : Nat) (dark : Nat → Nat → Bool) (lines : List (List Char)) : Option String :=
  if lines.length ≠ (n + 1) / 2 + 1 then some s!"line-count:{lines.length}"
  else if !lines.all (·.length == n + 2) then some "line-length"
  else match rows lines with
    | none => some "character-outside-alphabet"
    | some rs => if rs.drop 1 == expected n dark then none else some "decoded-grid-differs"

end FastQr.Spec.TermDecode
