/-
Specification of the three QR alphabets and of "most compact mode" (ISO/IEC 18004 7.3.3-7.3.5,
Table 5), as stated by property C09. Bytes are natural numbers < 256.
-/
import FastQr.Types

namespace FastQr.Spec

def isDigit (c : Nat) : Bool := decide (48 ≤ c ∧ c ≤ 57)

/-- the 45 characters of alphanumeric mode, in value order (Table 5) -/
def alnumChars : List Nat :=
  -- 0-9, A-Z, space $ % * + - . / :   (ASCII codes, in Table 5 value order)
  [48, 49, 50, 51, 52, 53, 54, 55, 56, 57, 65, 66, 67, 68, 69, 70, 71, 72, 73, 74, 75, 76, 77, 78, 79, 80, 81, 82, 83, 84, 85, 86, 87, 88, 89, 90, 32, 36, 37, 42, 43, 45, 46, 47, 58]

/-- the same list written as characters -/
theorem alnumChars_eq :
    alnumChars = "0123456789ABCDEFGHIJKLMNOPQRSTUVWXYZ $%*+-./:".toList.map Char.toNat := by
  decide +kernel

def isAlnum (c : Nat) : Bool := alnumChars.contains c

/-- Table 5 value of an alphanumeric character -/
def alnumValue (c : Nat) : Option Nat :=
  let i := alnumChars.idxOf c
  if i < 45 then some i else none

/-- C09: Numeric iff all digits (incl. empty), Alphanumeric iff all in the 45-set and not all
digits, Byte otherwise -/
def classify (inp : List Nat) : Mode :=
  if inp.all isDigit then .numeric else if inp.all isAlnum then .alnum else .byte

/-- the alphabet a mode can represent -/
def alphabetOK (m : Mode) (inp : List Nat) : Bool :=
  match m with
  | .numeric => inp.all isDigit
  | .alnum => inp.all isAlnum
  | .byte => inp.all (fun c => decide (c < 256))

def IsBytes (inp : List Nat) : Prop := ∀ c ∈ inp, c < 256

end FastQr.Spec
