/-
ISO/IEC 18004 reference decoding of an observed symbol (clause 11, without error correction: the
symbols under test are freshly generated, so every check is for exact agreement):
format information -> unmask -> zig-zag codeword read-out -> de-interleave (Table 9) -> segment parse.
Independent of the crate and of the model (uses Spec/* only).
-/
import FastQr.Spec.Grid
import FastQr.Spec.Regions
import FastQr.Spec.BCH
import FastQr.Spec.MaskCond
import FastQr.Spec.Bitstream
import FastQr.Spec.GF256

namespace FastQr.Spec.Decode

/-- reads a word whose module coordinates are listed most significant bit first as (column, row) -/
def readWord (g : Grid) (cells : List (Int × Int)) : Nat :=
  cells.foldl (fun acc (x, y) => 2 * acc + (if g.dark (g.rel y) (g.rel x) then 1 else 0)) 0

def formatCopy1 (g : Grid) : Nat := readWord g Iso.formatMain
def formatCopy2 (g : Grid) : Nat := readWord g Iso.formatSide
def versionCopy1 (g : Grid) : Nat := readWord g Iso.versionBL
def versionCopy2 (g : Grid) : Nat := readWord g Iso.versionTR

/-- the (level, mask) whose format information is exactly `w` -/
def findFormat (w : Nat) : Option (ECL × Nat) :=
  (ECL.all.flatMap fun l => (List.range 8).map fun m => (l, m)).find? fun (l, m) => BCH.format15 l m == w

/-- the column pairs of the read-out, right to left, skipping the vertical timing column -/
def pairColumns (n : Nat) : List Nat := ((List.range ((n - 7) / 2)).map fun k => n - 1 - 2 * k) ++ [5, 3, 1]

/-- encoding-region coordinates in placement order (7.7.3): two-module-wide columns from the
bottom right, alternately upwards and downwards, right module first -/
def scan (v : Nat) (rm : Array Nat) : List (Nat × Nat) :=
  let n := Regions.side v
  ((pairColumns n).zipIdx).flatMap fun (col, k) =>
    let rows := if k % 2 == 0 then (List.range n).reverse else List.range n
    rows.flatMap fun r =>
      (if rm.getD (r * n + col) 1 == 0 then [(r, col)] else []) ++
      (if rm.getD (r * n + (col - 1)) 1 == 0 then [(r, col - 1)] else [])

/-- the unmasked bit sequence of the encoding region -/
def readBits (g : Grid) (v : Nat) (rm : Array Nat) (mask : Nat) : List Bool :=
  (scan v rm).map fun (r, c) => g.dark r c != maskCond mask r c

/-- Table 9 block sizes in data codewords, in block order -/
def blockSizes (v : Nat) (l : ECL) : List Nat :=
  let (s1, c1, s2, c2) := (Iso.dataBlocks.getD v #[]).getD l.ix (0, 0, 0, 0)
  List.replicate c1 s1 ++ List.replicate c2 s2

def ecLen (v : Nat) (l : ECL) : Nat := (Iso.ecPerBlock.getD v #[]).getD l.ix 0

/-- positions (block index, index in block) of the interleaved data codewords, in sequence order -/
def dataOrder (sizes : List Nat) : List (Nat × Nat) :=
  let mx := sizes.foldl max 0
  (List.range mx).flatMap fun i => (sizes.zipIdx).filterMap fun (s, b) => if i < s then some (b, i) else none

def ecOrder (nblocks ec : Nat) : List (Nat × Nat) :=
  (List.range ec).flatMap fun i => (List.range nblocks).map fun b => (b, i)

/-- sequence positions (within the data part of the interleaved sequence) holding the data codewords
of block `b`, in the order of the block -/
def blockPositions (sizes : List Nat) (b : Nat) : List Nat :=
  ((dataOrder sizes).zipIdx.filter fun p => p.1.1 == b).map (·.2)

/-- sequence positions (within the EC part) of the EC codewords of block `b` -/
def ecPositions (nblocks ec b : Nat) : List Nat :=
  ((ecOrder nblocks ec).zipIdx.filter fun p => p.1.1 == b).map (·.2)

/-- de-interleaving: per block (data codewords, EC codewords) -/
def deinterleave (v : Nat) (l : ECL) (cw : Array Nat) : List (List Nat × List Nat) :=
  let sizes := blockSizes v l
  let nb := sizes.length
  let ec := ecLen v l
  let total := sizes.foldl (· + ·) 0
  (List.range nb).map fun b =>
    ((blockPositions sizes b).map fun k => cw.getD k 0,
     (ecPositions nb ec b).map fun k => cw.getD (total + k) 0)

structure Result where
  ecl : ECL
  mask : Nat
  version : Nat
  blocks : List (List Nat × List Nat)
  remainder : List Bool
  dataCodewords : List Nat
  parsed : Option Bitstream.Parsed

def bytesOfBits : List Bool → List Nat × List Bool
  | a :: b :: c :: d :: e :: f :: g :: h :: rest =>
    let (bs, r) := bytesOfBits rest
    (Bitstream.ofBits [a, b, c, d, e, f, g, h] :: bs, r)
  | r => ([], r)

/-- full decode; `rm` must be `Regions.regionMap v` for the symbol's version -/
def decode (g : Grid) (rm : Array Nat) : Except String Result :=
  match g.version? with
  | none => .error "illegal-size"
  | some v =>
    match findFormat (formatCopy1 g) with
    | none => .error "format-information-not-a-codeword"
    | some (l, m) =>
      let bits := readBits g v rm m
      let (cw, rem) := bytesOfBits bits
      let blocks := deinterleave v l cw.toArray
      let data := blocks.flatMap (·.1)
      let dataBits := data.flatMap (Bitstream.toBits 8)
      .ok { ecl := l, mask := m, version := v, blocks := blocks, remainder := rem,
            dataCodewords := data, parsed := Bitstream.parse v dataBits }

end FastQr.Spec.Decode
