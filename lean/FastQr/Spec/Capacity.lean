/-
Specification of symbol capacity (ISO/IEC 18004 7.4.1 Table 3, 7.4.3-7.4.5, Table 7):
an input of `len` characters fits version `v` at level `l` in mode `m` iff
  4 (mode indicator) + character-count width + payload bits ≤ number of data bits.
Independent of the crate: uses only Spec/IsoTables.
-/
import FastQr.Types
import FastQr.Spec.IsoTables

namespace FastQr.Spec

/-- ISO Table 3: width of the character count indicator (versions 1-9, 10-26, 27-40). -/
def cciBits (m : Mode) (v : Nat) : Nat :=
  match m with
  | .numeric => if v < 9 then 10 else if v < 26 then 12 else 14
  | .alnum => if v < 9 then 9 else if v < 26 then 11 else 13
  | .byte => if v < 9 then 8 else 16

/-- number of payload bits of `len` characters (7.4.3, 7.4.4, 7.4.5) -/
def payloadBits (m : Mode) (len : Nat) : Nat :=
  match m with
  | .numeric => 10 * (len / 3) + (if len % 3 = 1 then 4 else if len % 3 = 2 then 7 else 0)
  | .alnum => 11 * (len / 2) + 6 * (len % 2)
  | .byte => 8 * len

/-- ISO Table 7 -/
def dataBits (v : Nat) (l : ECL) : Nat := (Iso.dataBits.getD v #[]).getD l.ix 0

def dataCodewords (v : Nat) (l : ECL) : Nat := dataBits v l / 8

def fits (m : Mode) (l : ECL) (v len : Nat) : Bool :=
  4 + cciBits m v + payloadBits m len ≤ dataBits v l

/-- the smallest version (0-based index) that holds the input, if any -/
def least (m : Mode) (l : ECL) (len : Nat) : Option Nat :=
  (List.range 40).find? (fun v => fits m l v len)

theorem payloadBits_mono (m : Mode) {a b : Nat} (h : a ≤ b) : payloadBits m a ≤ payloadBits m b := by
  cases m <;> simp only [payloadBits]
  · have ha : a % 3 = 0 ∨ a % 3 = 1 ∨ a % 3 = 2 := by omega
    have hb : b % 3 = 0 ∨ b % 3 = 1 ∨ b % 3 = 2 := by omega
    rcases ha with ha | ha | ha <;> rcases hb with hb | hb | hb <;> simp [ha, hb] <;> omega
  · omega
  · omega

theorem fits_antitone (m : Mode) (l : ECL) (v : Nat) {a b : Nat} (h : a ≤ b)
    (hb : fits m l v b = true) : fits m l v a = true := by
  have := payloadBits_mono m h
  simp only [fits, decide_eq_true_eq] at *
  omega

end FastQr.Spec
