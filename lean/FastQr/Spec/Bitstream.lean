/-
ISO/IEC 18004 7.4: the bit stream of ONE segment — encoder and strict parser.
Bits are `Bool`s, most significant first. Independent of the crate and of the model.
-/
import FastQr.Spec.Capacity
import FastQr.Spec.Classify

namespace FastQr.Spec.Bitstream

/-- `k` bits of `x`, most significant first -/
def toBits (k x : Nat) : List Bool := (List.range k).map fun i => (x >>> (k - 1 - i)) % 2 == 1

def ofBits (bs : List Bool) : Nat := bs.foldl (fun a b => 2 * a + (if b then 1 else 0)) 0

def modeIndicator : Mode → Nat
  | .numeric => 1 | .alnum => 2 | .byte => 4

def digitsBits : List Nat → List Bool
  | a :: b :: c :: rest => toBits 10 ((a - 48) * 100 + (b - 48) * 10 + (c - 48)) ++ digitsBits rest
  | [a, b] => toBits 7 ((a - 48) * 10 + (b - 48))
  | [a] => toBits 4 (a - 48)
  | [] => []

def alnumBits : List Nat → List Bool
  | a :: b :: rest => toBits 11 ((alnumValue a).getD 0 * 45 + (alnumValue b).getD 0) ++ alnumBits rest
  | [a] => toBits 6 ((alnumValue a).getD 0)
  | [] => []

def payload (m : Mode) (inp : List Nat) : List Bool :=
  match m with
  | .numeric => digitsBits inp
  | .alnum => alnumBits inp
  | .byte => inp.flatMap (toBits 8)

/-- mode indicator, character count, payload -/
def segment (m : Mode) (v : Nat) (inp : List Nat) : List Bool :=
  toBits 4 (modeIndicator m) ++ toBits (cciBits m v) inp.length ++ payload m inp

def packBytes : List Bool → List Nat
  | a :: b :: c :: d :: e :: f :: g :: h :: rest => ofBits [a, b, c, d, e, f, g, h] :: packBytes rest
  | [] => []
  | bs => [ofBits (bs ++ List.replicate (8 - bs.length) false)]

/-- the data codewords of a symbol of version `v`, level `l` holding `inp` as one segment:
segment, terminator of min(4, remaining) zeros, zeros to the byte boundary, pad codewords
11101100 / 00010001 alternately up to the data capacity -/
def codewords (m : Mode) (v : Nat) (l : ECL) (inp : List Nat) : List Nat :=
  let cap := dataBits v l
  let s := segment m v inp
  let s := s ++ List.replicate (min 4 (cap - s.length)) false
  let s := s ++ List.replicate ((8 - s.length % 8) % 8) false
  let bytes := packBytes s
  bytes ++ (List.range (cap / 8 - bytes.length)).map fun i => if i % 2 == 0 then 0xEC else 0x11

/-! ### strict parser -/

structure Parsed where
  mode : Mode
  bytes : List Nat
  deriving DecidableEq, Repr

def alnumChar (x : Nat) : Nat := alnumChars.getD x 0

/-- `cnt` digits from the bit list (groups of 10 / 7 / 4 bits); `none` if a group value is out of range -/
def parseDigits : Nat → List Bool → Option (List Nat × List Bool)
  | 0, bs => some ([], bs)
  | 1, bs =>
    if bs.length < 4 then none else
    let x := ofBits (bs.take 4)
    if x ≥ 10 then none else some ([48 + x], bs.drop 4)
  | 2, bs =>
    if bs.length < 7 then none else
    let x := ofBits (bs.take 7)
    if x ≥ 100 then none else some ([48 + x / 10, 48 + x % 10], bs.drop 7)
  | cnt + 3, bs =>
    if bs.length < 10 then none else
    let x := ofBits (bs.take 10)
    if x ≥ 1000 then none else
    match parseDigits cnt (bs.drop 10) with
    | none => none
    | some (ds, rest) => some ((48 + x / 100) :: (48 + x / 10 % 10) :: (48 + x % 10) :: ds, rest)

def parseAlnum : Nat → List Bool → Option (List Nat × List Bool)
  | 0, bs => some ([], bs)
  | 1, bs =>
    if bs.length < 6 then none else
    let x := ofBits (bs.take 6)
    if x ≥ 45 then none else some ([alnumChar x], bs.drop 6)
  | cnt + 2, bs =>
    if bs.length < 11 then none else
    let x := ofBits (bs.take 11)
    if x ≥ 45 * 45 then none else
    match parseAlnum cnt (bs.drop 11) with
    | none => none
    | some (cs, rest) => some (alnumChar (x / 45) :: alnumChar (x % 45) :: cs, rest)

def parseBytes : Nat → List Bool → Option (List Nat × List Bool)
  | 0, bs => some ([], bs)
  | cnt + 1, bs =>
    if bs.length < 8 then none else
    match parseBytes cnt (bs.drop 8) with
    | none => none
    | some (cs, rest) => some (ofBits (bs.take 8) :: cs, rest)

/-- the pad codewords alternate 11101100 / 00010001 starting with 11101100 -/
def padsOk (bytes : List Nat) : Bool :=
  (bytes.zipIdx).all fun (b, i) => b == (if i % 2 == 0 then 0xEC else 0x11)

/-- what must follow the segment: the terminator of min(4, remaining) zero bits, zero bits to the byte
boundary (`used` = number of bits before `rest`), then only alternating pad codewords -/
def tailOk (used : Nat) (rest : List Bool) : Bool :=
  let t := min 4 rest.length
  let padBits := (8 - (used + t) % 8) % 8
  let zeros := rest.take (t + padBits)
  zeros.length == t + padBits && !zeros.any id &&
    (rest.drop (t + padBits)).length % 8 == 0 && padsOk (packBytes (rest.drop (t + padBits)))

/-- Parses the data codewords (as bits) of a version-`v` symbol as exactly one segment followed by
terminator, bit padding and pad codewords. -/
def parse (v : Nat) (bits : List Bool) : Option Parsed :=
  if bits.length < 4 then none else
  let mi := ofBits (bits.take 4)
  let mode? : Option Mode := if mi == 1 then some .numeric else if mi == 2 then some .alnum else if mi == 4 then some .byte else none
  match mode? with
  | none => none
  | some m =>
    let w := cciBits m v
    let b1 := bits.drop 4
    if b1.length < w then none else
    let cnt := ofBits (b1.take w)
    let b2 := b1.drop w
    let r := match m with
      | .numeric => parseDigits cnt b2
      | .alnum => parseAlnum cnt b2
      | .byte => parseBytes cnt b2
    match r with
    | none => none
    | some (chars, rest) => if tailOk (bits.length - rest.length) rest then some ⟨m, chars⟩ else none

end FastQr.Spec.Bitstream
