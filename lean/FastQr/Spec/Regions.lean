/-
The ISO/IEC 18004 function-pattern map of a version (6.3, Figures 25/26, Annex E): which region a
coordinate belongs to, and the prescribed value of every function-pattern module.
Versions are 0-based indices `v` (ISO version v+1, side 21 + 4v). Independent of the crate: uses
only Spec/IsoTables.
-/
import FastQr.Spec.IsoTables

namespace FastQr.Spec

/-- regions, numbered like the crate's public `ModuleType` labels so they can be compared directly:
0 data (encoding region: data, EC, remainder), 1 finder, 2 alignment, 3 timing, 4 format information,
5 version information, 6 the dark module, 7 separator -/
inductive Region where
  | data | finder | alignment | timing | format | version | dark | separator
  deriving DecidableEq, Repr, Inhabited

def Region.code : Region → Nat
  | .data => 0 | .finder => 1 | .alignment => 2 | .timing => 3 | .format => 4 | .version => 5
  | .dark => 6 | .separator => 7

namespace Regions

def side (v : Nat) : Nat := 21 + 4 * v

/-- top-left corners (row, column) of the three finder patterns -/
def finderCorners (n : Nat) : List (Nat × Nat) := [(0, 0), (0, n - 7), (n - 7, 0)]

def inFinder (n r c : Nat) : Bool :=
  (finderCorners n).any fun (y, x) => y ≤ r && r < y + 7 && x ≤ c && c < x + 7

/-- the 8x8 corner areas (finder + separator) -/
def inCorner (n r c : Nat) : Bool :=
  (r < 8 && c < 8) || (r < 8 && c ≥ n - 8) || (r ≥ n - 8 && c < 8)

/-- Annex E: centres of the alignment patterns: every pair of coordinates except the three that
would overlap a finder pattern -/
def alignCentres (v : Nat) : List (Nat × Nat) :=
  let cs := Iso.alignCentres.getD v []
  let last := cs.getLastD 0
  (cs.flatMap fun a => cs.map fun b => (a, b)).filter fun (a, b) =>
    !((a == 6 && b == 6) || (a == 6 && b == last) || (a == last && b == 6))

def dist (a b : Nat) : Nat := if a ≥ b then a - b else b - a

/-- Chebyshev distance to the nearest of the given centres within 2, if any -/
def alignDistIn (centres : List (Nat × Nat)) (r c : Nat) : Option Nat :=
  (centres.find? fun (a, b) => dist r a ≤ 2 && dist c b ≤ 2).map fun (a, b) => max (dist r a) (dist c b)

def alignDist (v r c : Nat) : Option Nat := alignDistIn (alignCentres v) r c

def formatCells (n : Nat) : List (Nat × Nat) :=
  let rel (k : Int) : Nat := if k < 0 then n - k.natAbs else k.natAbs
  (Iso.formatMain ++ Iso.formatSide).map fun (x, y) => (rel y, rel x)

def versionCells (n : Nat) : List (Nat × Nat) :=
  let rel (k : Int) : Nat := if k < 0 then n - k.natAbs else k.natAbs
  (Iso.versionBL ++ Iso.versionTR).map fun (x, y) => (rel y, rel x)

/-- the per-version data `region` needs, computed once -/
structure Ctx where
  v : Nat
  n : Nat
  centres : List (Nat × Nat)
  fcells : List (Nat × Nat)
  vcells : List (Nat × Nat)

def ctx (v : Nat) : Ctx :=
  { v := v, n := side v, centres := alignCentres v, fcells := formatCells (side v), vcells := versionCells (side v) }

/-- region of coordinate (r, c). Where an alignment pattern sits on a timing line (row/column 6,
versions 7+) the module is counted as alignment: both patterns prescribe the same value there, and
the alignment pattern is the more specific region. -/
def regionIn (x : Ctx) (r c : Nat) : Region :=
  if inFinder x.n r c then .finder
  else if inCorner x.n r c then .separator
  else if (alignDistIn x.centres r c).isSome then .alignment
  else if r == 6 || c == 6 then .timing
  else if r == x.n - 8 && c == 8 then .dark
  else if x.fcells.contains (r, c) then .format
  else if x.v ≥ 6 && x.vcells.contains (r, c) then .version
  else .data

def region (v r c : Nat) : Region := regionIn (ctx v) r c

/-- prescribed value (dark?) of a function-pattern module; `none` for data / format / version -/
def stdValueIn (x : Ctx) (r c : Nat) : Option Bool :=
  match regionIn x r c with
  | .finder =>
    let corner := (finderCorners x.n).find? fun (y, x) => y ≤ r && r < y + 7 && x ≤ c && c < x + 7
    corner.map fun (y, x) => max (dist r (y + 3)) (dist c (x + 3)) != 2
  | .separator => some false
  | .alignment => (alignDistIn x.centres r c).map fun d => d != 1
  | .timing => some ((r + c) % 2 == 0)
  | .dark => some true
  | _ => none

def stdValue (v r c : Nat) : Option Bool := stdValueIn (ctx v) r c

/-- number of encoding-region modules -/
def dataModuleCount (v : Nat) : Nat :=
  let n := side v
  (List.range n).foldl (fun acc r =>
    (List.range n).foldl (fun acc c => if region v r c == .data then acc + 1 else acc) acc) 0

end Regions
end FastQr.Spec

namespace FastQr.Spec.Regions
/-- the region codes of all modules, row-major (what the driver caches per version) -/
def regionMap (v : Nat) : Array Nat :=
  let x := ctx v
  Array.ofFn (n := x.n * x.n) fun k => (regionIn x (k.val / x.n) (k.val % x.n)).code
end FastQr.Spec.Regions
