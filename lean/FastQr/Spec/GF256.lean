/-
GF(2^8) modulo x^8 + x^4 + x^3 + x^2 + 1 (0x11D), table-free: shift-and-xor multiplication.
Polynomials over the field are coefficient lists, highest degree first (the order of codewords).
-/
namespace FastQr.Spec.GF

def xtime (a : Nat) : Nat := if a < 128 then 2 * a else (2 * a - 256) ^^^ 0x1D

def mulAux : Nat → Nat → Nat → Nat → Nat
  | 0, _, _, acc => acc
  | k + 1, a, b, acc => mulAux k (xtime a) (b / 2) (if b % 2 = 1 then acc ^^^ a else acc)

/-- product of two field elements (bytes) -/
def mul (a b : Nat) : Nat := mulAux 8 a b 0

/-- alpha^i with alpha = x (the byte 2) -/
def alphaPow : Nat → Nat
  | 0 => 1
  | i + 1 => xtime (alphaPow i)

/-- Horner evaluation of a polynomial (highest degree first) -/
def eval (p : List Nat) (x : Nat) : Nat := p.foldl (fun acc c => mul acc x ^^^ c) 0

/-- `p * (x + a)` -/
def mulLin (p : List Nat) (a : Nat) : List Nat :=
  let hi := p ++ [0]
  let lo := 0 :: p.map (mul a)
  List.zipWith (· ^^^ ·) hi lo

/-- g(x) = ∏_{i < ec} (x - alpha^i) (monic, degree `ec`, highest degree first) -/
def genPoly (ec : Nat) : List Nat :=
  (List.range ec).foldl (fun g i => mulLin g (alphaPow i)) [1]

/-- schoolbook remainder of `data(x) * x^ec` modulo a monic `g` of degree `ec` -/
def remStep (g : List Nat) (work : List Nat) : List Nat :=
  match work with
  | [] => []
  | f :: rest => List.zipWith (· ^^^ ·) rest ((g.drop 1).map (mul f) ++ List.replicate (rest.length - (g.length - 1)) 0)

def remainder (data : List Nat) (g : List Nat) : List Nat :=
  let ec := g.length - 1
  (List.range data.length).foldl (fun w _ => remStep g w) (data ++ List.replicate ec 0)

/-- the `ec` syndromes of a received block -/
def syndromes (block : List Nat) (ec : Nat) : List Nat := (List.range ec).map fun i => eval block (alphaPow i)

end FastQr.Spec.GF
